//go:build verif

// C15 Binding parameters preserves their values and cannot change the statement.
//
// End to end: a raw client sets a sql_mode, prepares a template and executes it
// through the live proxy (namespace without shard rules: the rewritten text is
// forwarded verbatim); the simulated backend records the statement text and the
// sql_mode in force on that backend connection. The text is tokenised by
// internal/sqllex (written from the MySQL manual, aware of NO_BACKSLASH_ESCAPES
// and ANSI_QUOTES) and must be the template with every placeholder replaced by
// exactly one literal denoting exactly the bound value.
package c15

import (
	"fmt"
	"strings"
	"sync/atomic"
	"testing"

	"pgregory.net/rapid"

	"verifharness/internal/pbt"
	"verifharness/internal/proxyfix"
	"verifharness/internal/rawclient"
	"verifharness/internal/sqllex"
	"verifharness/internal/stmtfix"
)

const tag = "c15tag"

// ---- case ----

type step struct {
	Set             string         `json:"set,omitempty"` // SET statement issued through the proxy ("" = none)
	SetAfterPrepare bool           `json:"set_after_prepare,omitempty"`
	Template        string         `json:"template"`
	Params          []sqllex.Param `json:"params"`
}

type c15Case struct {
	Multi bool   `json:"multi,omitempty"` // multi-statement session: the rewritten text also passes the statement splitter
	Steps []step `json:"steps"`
}

// ---- generators ----

var modes = []string{
	"NO_BACKSLASH_ESCAPES", "NO_BACKSLASH_ESCAPES", "NO_BACKSLASH_ESCAPES",
	"", "STRICT_TRANS_TABLES", "ANSI_QUOTES", "ANSI",
	"STRICT_TRANS_TABLES,NO_BACKSLASH_ESCAPES", "ANSI_QUOTES,NO_BACKSLASH_ESCAPES",
	"no_backslash_escapes", "ONLY_FULL_GROUP_BY,STRICT_TRANS_TABLES,NO_ZERO_IN_DATE,NO_ZERO_DATE,ERROR_FOR_DIVISION_BY_ZERO,NO_ENGINE_SUBSTITUTION",
	"PIPES_AS_CONCAT,NO_BACKSLASH_ESCAPES,IGNORE_SPACE",
}

func genSet(t *rapid.T) string {
	k := stmtfix.Pick(t, "set_k", 10)
	if k <= 2 {
		return "" // keep whatever is in force
	}
	if k == 3 {
		return "SET sql_mode = DEFAULT"
	}
	m := modes[stmtfix.Pick(t, "mode", len(modes))]
	switch rapid.IntRange(0, 4).Draw(t, "set_form") {
	case 0:
		return "SET sql_mode='" + m + "'"
	case 1:
		return "SET SESSION sql_mode = '" + m + "'"
	case 2:
		return "set @@sql_mode='" + m + "'"
	case 3:
		return "SET @@session.sql_mode = '" + m + "'"
	}
	return "SET sql_mode=\"" + m + "\""
}

// genTemplate builds a statement with n placeholders from fixed shapes. The
// vocabulary stays inside what server.CalcParams and the reference lexer agree
// on (no ? inside strings/comments/quoted identifiers, no backslash in string
// literals: that is C14's subject); the tag always precedes the first ?.
func genTemplate(t *rapid.T, n int) string {
	ph := func(k int) string { // k-th placeholder with varying adjacency
		return rapid.SampledFrom([]string{"?", "?", " ?", "? ", "(?)", "-?", "- ?", "+?"}).Draw(t, fmt.Sprintf("ph%d", k))
	}
	cols := []string{"a", "b", "c", "d"}
	switch stmtfix.Pick(t, "shape", 10) {
	case 0:
		s := "SELECT '" + tag + "'"
		for k := 0; k < n; k++ {
			s += "," + ph(k)
		}
		return s
	case 1:
		ops := []string{" = ", " <> ", " <= ", " LIKE ", " <=> ", ">", " != "}
		s := "SELECT a, b FROM " + tag + " WHERE "
		for k := 0; k < n; k++ {
			if k > 0 {
				s += rapid.SampledFrom([]string{" AND ", " OR ", " and "}).Draw(t, fmt.Sprintf("conj%d", k))
			}
			s += cols[k] + rapid.SampledFrom(ops).Draw(t, fmt.Sprintf("op%d", k)) + "?"
		}
		return s
	case 2:
		s := "INSERT INTO " + tag + " (" + strings.Join(cols[:n], ", ") + ") VALUES ("
		for k := 0; k < n; k++ {
			if k > 0 {
				s += ", "
			}
			s += "?"
		}
		return s + ")"
	case 3:
		s := "SELECT a FROM " + tag + " WHERE a IN ("
		for k := 0; k < n; k++ {
			if k > 0 {
				s += ","
			}
			s += "?"
		}
		if n >= 2 && rapid.Bool().Draw(t, "limit_ph") {
			// the last placeholder is the LIMIT operand
			s = s[:strings.LastIndex(s, ",?")]
			return s + ") ORDER BY a LIMIT ?"
		}
		return s + ") ORDER BY a LIMIT 10"
	case 4:
		s := "UPDATE " + tag + " SET "
		for k := 0; k < n-1; k++ {
			if k > 0 {
				s += ", "
			}
			s += cols[k] + " = ?"
		}
		if n == 1 {
			s += "a = 1"
		}
		return s + " WHERE id = ?"
	case 5:
		s := "SELECT 'it''s " + tag + "', \"d q\", `q``id` /* c */"
		for k := 0; k < n; k++ {
			s += ", " + ph(k)
		}
		return s + " FROM t WHERE x > 'lit' # tail"
	case 6:
		s := "DELETE FROM " + tag + " WHERE a BETWEEN ? AND "
		if n == 1 {
			return s + "9"
		}
		s += "?"
		for k := 2; k < n; k++ {
			s += " OR b = ?"
		}
		return s
	case 7:
		s := "SELECT '" + tag + "'"
		fs := []string{", ?+1", ", ? * 2", ", CONCAT(?, 'x')", ", IFNULL(?,0)", ", ?||'y'", ", 1-?", ", 'a' ?"}
		for k := 0; k < n; k++ {
			s += rapid.SampledFrom(fs).Draw(t, fmt.Sprintf("fn%d", k))
		}
		return s
	case 8:
		s := "REPLACE INTO " + tag + " VALUES "
		for k := 0; k < n; k++ {
			if k > 0 {
				s += ","
			}
			s += "(?, 'k" + fmt.Sprint(k) + "')"
		}
		return s
	}
	s := "select '" + tag + "' from t where a=?"
	for k := 1; k < n; k++ {
		s += " and " + cols[k] + "=?"
	}
	return s + " limit 3"
}

func genCase(t *rapid.T) c15Case {
	var c c15Case
	c.Multi = stmtfix.Pick(t, "multi", 4) == 0
	ns := rapid.IntRange(1, 4).Draw(t, "steps")
	for i := 0; i < ns; i++ {
		var s step
		s.Set = genSet(t)
		if i == 0 && s.Set == "" && rapid.Bool().Draw(t, "force_nbe") {
			s.Set = "SET sql_mode='NO_BACKSLASH_ESCAPES'"
		}
		s.SetAfterPrepare = rapid.Bool().Draw(t, "set_after")
		n := rapid.SampledFrom([]int{1, 1, 2, 2, 3, 4}).Draw(t, "nparams")
		s.Template = genTemplate(t, n)
		for k := 0; k < n; k++ {
			s.Params = append(s.Params, stmtfix.GenParam(t, fmt.Sprintf("p%d", k)))
		}
		c.Steps = append(c.Steps, s)
	}
	return c
}

// ---- oracle ----

func wireParams(ps []sqllex.Param) []rawclient.Param {
	out := make([]rawclient.Param, len(ps))
	for i, p := range ps {
		tp, uns, null, val := p.Wire()
		out[i] = rawclient.Param{Type: tp, Unsigned: uns, Null: null, Value: val}
	}
	return out
}

// judge compares one executed statement with the template; it returns a known
// finding id (with detail) or a violation, both empty when the statement is right.
//
// C15-F4 is the only open finding: in a multi-statement session the rewritten
// text passes parser.SplitStatementToPieces, whose scanner always reads
// backslash escapes; with NO_BACKSLASH_ESCAPES in force it misjudges where a
// literal ends and cuts the statement at a ';' inside a bound string. The
// classifier accepts exactly that: multi-statement session, the mode in force on
// the backend connection, and a text that is the template up to one string
// parameter (earlier values right) followed by the correct rendering of that
// value up to one of its ';'. (C15-F1/F2/F3 are fixed: their recurrence is a
// plain violation.)
func judge(template, got, modeText string, params []sqllex.Param, multi bool) (known, detail string) {
	m := sqllex.ParseMode(modeText)
	r := sqllex.Match(template, got, m, params, nil)
	if r.OK {
		return "", ""
	}
	base := fmt.Sprintf("sql_mode in force on the backend connection %q; template %q; backend received %q: %s", modeText, template, got, r.Detail)
	if multi && m.NoBackslashEscapes {
		if ok, k, at := sqllex.CutInsideValue(template, got, m, params); ok {
			return "C15-F4", fmt.Sprintf("%s | the text ends at the ';' at offset %d of the value bound to placeholder %d (multi-statement session)", base, at, k)
		}
	}
	return "", base
}

func checkCase(c c15Case) (o pbt.Outcome) {
	for _, s := range c.Steps {
		n, err := sqllex.CountPlaceholders(s.Template, sqllex.Mode{})
		if err != nil || n != len(s.Params) || n == 0 || !strings.Contains(s.Template, tag) {
			o.Skip = "malformed case: template/parameter mismatch"
			return
		}
	}
	e, err := stmtfix.OpenWith(stmtfix.Options{Prefix: "c15", MultiStatements: c.Multi})
	if err != nil {
		o.Skip = "fixture: " + err.Error()
		atomic.AddInt64(&fixtureFailures, 1)
		return
	}
	defer e.Close()
	label := func(l string) { o.Labels = append(o.Labels, l) }
	if c.Multi {
		label("multi_statement_session")
	}
	for si, s := range c.Steps {
		doSet := func() bool {
			if s.Set == "" {
				return true
			}
			r, err := e.Conn.Exec(s.Set)
			if err != nil {
				o.Skip = "transport error on SET: " + err.Error()
				return false
			}
			if r.Err != nil {
				label("set_rejected")
			}
			return true
		}
		if !s.SetAfterPrepare && !doSet() {
			return
		}
		st, perr, err := e.Conn.Prepare(s.Template)
		if err != nil {
			o.Skip = "transport error on prepare: " + err.Error()
			return
		}
		if perr != nil {
			label("prepare_rejected")
			continue
		}
		if int(st.Params) != len(s.Params) {
			label("param_count_disagrees(C14)")
			continue
		}
		if s.SetAfterPrepare && !doSet() {
			return
		}
		e.NewQueries(tag) // drop anything earlier
		res, err := e.Conn.Execute(st, wireParams(s.Params))
		evs := e.NewQueries(tag)
		accepted := err == nil && res.Err == nil
		switch {
		case err != nil:
			label("execute_connection_lost")
		case res.Err != nil:
			label("execute_rejected")
		default:
			label("execute_ok")
		}
		if accepted && len(evs) != 1 {
			o.Violation = fmt.Sprintf("step %d: execute of %q succeeded but the backend received %d tagged statements", si, s.Template, len(evs))
			return
		}
		for _, ev := range evs {
			modeText := ev.Vars["sql_mode"]
			m := sqllex.ParseMode(modeText)
			if m.NoBackslashEscapes {
				label("mode_no_backslash_escapes")
				o.NonTrivial = true
			} else if m.AnsiQuotes {
				label("mode_ansi_quotes")
			} else {
				label("mode_backslash_escapes")
			}
			for _, p := range s.Params {
				label("value_" + p.Kind)
				switch p.Kind {
				case "str":
					if strings.ContainsAny(string(p.Bytes), "'\\\x00") {
						o.NonTrivial = true
						label("value_str_hostile")
						if m.NoBackslashEscapes {
							label("value_str_hostile_under_nbe")
						}
					}
					if len(p.Bytes) > 250 {
						label("value_str_long")
					}
				case "float", "double":
					o.NonTrivial = true
					if p.NonFinite() {
						label("value_non_finite")
					}
				case "date", "datetime", "time":
					o.NonTrivial = true
				}
			}
			k, detail := judge(s.Template, ev.SQL, modeText, s.Params, c.Multi)
			if detail == "" {
				continue
			}
			if k == "" {
				o.Violation = fmt.Sprintf("step %d: %s", si, detail)
				return
			}
			label("known_" + k)
			// the remaining pieces were run as statements of their own and answered separately:
			// the session is out of step with the client, nothing more can be observed
			o.Known, o.KnownWhat = k, fmt.Sprintf("step %d: %s", si, detail)
			return
		}
		if err != nil {
			break // session is gone
		}
		e.Conn.StmtClose(st.ID)
	}

	return
}

// fixtureFailures counts cases that could not be evaluated because the proxy,
// the backend or the client session could not be set up (e.g. the host ran out
// of ephemeral ports). A run dominated by them must not look like a pass.
var fixtureFailures int64

func TestC15Bind(t *testing.T) {
	if _, err := proxyfix.Shared(); err != nil {
		t.Fatalf("inconclusive: the live proxy fixture cannot start: %v", err)
	}
	defer func() {
		if n := atomic.LoadInt64(&fixtureFailures); n > 20 {
			t.Errorf("inconclusive: the fixture failed to set up %d cases (see the skipped reasons in the evidence)", n)
		}
	}()
	pbt.Run(t, pbt.Spec{ID: "C15", Sub: "bind", Quick: 1000, Thorough: 6000,
		Rule:  "1-4 steps per session, each: optional SET sql_mode (12 mode lists, 5 spellings, DEFAULT) before or after prepare, a template of 10 shapes with 1-4 placeholders, values of every binary-protocol type (hostile byte strings, integer extremes per width/signedness, float/double specials and random bits, DATE/DATETIME/TIMESTAMP/TIME of each legal length, NULL by bitmap and by type); non-trivial = a checked execution under NO_BACKSLASH_ESCAPES, or with a string containing ' \\ or NUL, or a float/temporal value",
		Floor: 0.5}, genCase, checkCase)
}
