//go:build verif

package c36

import (
	"fmt"
	"strings"

	"pgregory.net/rapid"
)

// ---- tokens ----

const (
	kKw    = iota // reserved word (re-casing is an equivalent change)
	kIdent        // table / column / alias name (possibly back-quoted)
	kPunct        // operator or punctuation
	kInt          // integer literal, optionally signed
	kDec          // decimal / floating literal
	kStr          // quoted string literal
	kFunc         // function name (directly followed by "(")
)

type tok struct {
	K int    `json:"k"`
	S string `json:"s"`
	R string `json:"r,omitempty"` // role, for mutation and classification: table, column, cmpop, logic, lit:<context>, inparen, ...
	// D > 0: the token lies inside the parentheses of an IN (...) or VALUES (...) list
	D int `json:"d,omitempty"`
}

type stmt struct {
	Toks []tok `json:"toks"`
	Gaps []int `json:"gaps"` // Gaps[i]: blanks between Toks[i] and Toks[i+1] in the blacklisted text (0 or 1)
}

func wordlike(t tok) bool { return t.K != kPunct }

const (
	gapFrozen   = iota // never touched: around ".", between a function name and "("
	gapRequired        // two word-like tokens: some separator must stay
	gapOptional        // next to punctuation: whitespace may or may not be there
)

func gapKind(toks []tok, i int) int {
	a, b := toks[i], toks[i+1]
	if a.S == "." || b.S == "." {
		return gapFrozen
	}
	if a.K == kFunc && b.S == "(" {
		return gapFrozen
	}
	if wordlike(a) && wordlike(b) {
		return gapRequired
	}
	return gapOptional
}

// ---- statement specification (generator-side only) ----

type pred struct {
	Kind  string // cmp, in, between, like, isnull, colcmp, insub
	Col   string
	Op    string
	Not   bool
	Lits  []tok
	Col2  string // colcmp: right column; insub: selected column
	Table string // insub: table of the subquery
}

type selItem struct {
	Star bool
	Func string
	Col  string
	Lit  *tok // second argument of a two-argument function
}

type spec struct {
	Kind    string // select, insert, update, delete
	Table   string
	Items   []selItem
	Join    bool
	Left    bool
	JTable  string
	JL, JR  string
	Preds   []pred
	Logic   []string
	Paren   bool // parenthesise the first two predicates
	Group   string
	Order   string
	Desc    bool
	Order2  string
	Limit   []tok
	Offset  bool // LIMIT n OFFSET m instead of LIMIT n, m
	InsCols []string
	Rows    [][]tok
	Sets    []pred // cmp with "="
}

var tables = []string{"t", "t1", "t2", "u", "orders", "user_info", "tbl_user_info", "db1.t1", "db1.orders", "`t`", "`order`", "a_b_c", "T_LOG"}
var columns = []string{"a", "b", "c", "id", "name", "age", "col_1", "created_at", "f1", "e2", "x", "dead", "uid", "`key`", "status", "C2"}
var funcs1 = []string{"max", "min", "sum", "avg", "count", "lower", "abs"}
var cmpOps = []string{"=", "=", "=", "<", ">", "<=", ">=", "<>", "!="}

func pick(t *rapid.T, xs []string, name string) string { return rapid.SampledFrom(xs).Draw(t, name) }

func pickOther(t *rapid.T, xs []string, not string, name string) string {
	for i := 0; i < 20; i++ {
		s := pick(t, xs, name)
		if !strings.EqualFold(strings.Trim(s, "`"), strings.Trim(not, "`")) {
			return s
		}
	}
	return "zz_other"
}

// ---- literals ----

var strPieces = []string{"a", "x", "abc", "hello world", "42", "%", "_", "x%", " ", "select", " from t ", "(", ")", "(1,2)", ",", "=", "é", "中文",
	"--", "-- c", "#", "/*", "*/", "/* c */", `\'`, `\\`, `\"`, "''", `"`, "?", ";", "NULL", "\t"}

func genStrLit(t *rapid.T, name string) string {
	q := rapid.SampledFrom([]string{"'", "'", "'", `"`}).Draw(t, name+"_q")
	n := rapid.IntRange(0, 3).Draw(t, name+"_n")
	var sb strings.Builder
	plain := rapid.IntRange(0, 2).Draw(t, name+"_plain") > 0 // two thirds of the strings are plain words
	for i := 0; i < n; i++ {
		var p string
		if plain {
			p = rapid.SampledFrom([]string{"a", "x", "abc", "hello", "42", "zhang san", "2024-01-02", "x%"}).Draw(t, name+"_p")
		} else {
			p = rapid.SampledFrom(strPieces).Draw(t, name+"_p")
		}
		switch {
		case p == "''" && q == `"`:
			p = `""`
		case p == `"` && q == `"`:
			p = "'"
		}
		sb.WriteString(p)
	}
	return q + sb.String() + q
}

func genIntLit(t *rapid.T, name string) string {
	s := rapid.SampledFrom([]string{"0", "1", "2", "5", "7", "10", "42", "100", "255", "1000", "65535", "20240102", "4294967296", "18446744073709551615", "007"}).Draw(t, name)
	if rapid.IntRange(0, 9).Draw(t, name+"_r") < 3 {
		s = fmt.Sprint(rapid.IntRange(0, 99999).Draw(t, name+"_v"))
	}
	switch rapid.IntRange(0, 11).Draw(t, name+"_sg") {
	case 0:
		s = "-" + s
	case 1:
		s = "+" + s
	}
	return s
}

func genDecLit(t *rapid.T, name string) string {
	return rapid.SampledFrom([]string{"1.5", "0.25", "12.75", "3.14159", "100.0", "0.0", "1e9", "1.5e-3", "2E10", ".5", "-2.5", "6.02e23"}).Draw(t, name)
}

// genLit draws a literal for a context; kinds lists the literal kinds allowed there.
func genLit(t *rapid.T, ctx string, name string, kinds ...int) tok {
	k := kinds[rapid.IntRange(0, len(kinds)-1).Draw(t, name+"_kind")]
	switch k {
	case kInt:
		return tok{K: kInt, S: genIntLit(t, name), R: "lit:" + ctx}
	case kDec:
		return tok{K: kDec, S: genDecLit(t, name), R: "lit:" + ctx}
	}
	return tok{K: kStr, S: genStrLit(t, name), R: "lit:" + ctx}
}

// sameKind draws another literal of the same kind as old.
func sameKind(t *rapid.T, old tok, name string) string {
	for i := 0; i < 10; i++ {
		var s string
		switch old.K {
		case kInt:
			s = genIntLit(t, name)
			if old.R == "lit:limit" {
				s = strings.TrimLeft(s, "+-")
			}
		case kDec:
			s = genDecLit(t, name)
		default:
			s = genStrLit(t, name)
		}
		if s != old.S {
			return s
		}
	}
	if old.K == kStr {
		return "'zz'"
	}
	return "31337"
}

// ---- spec generation ----

func genPred(t *rapid.T, name string) pred {
	p := pred{Col: pick(t, columns, name+"_col")}
	switch rapid.IntRange(0, 11).Draw(t, name+"_k") {
	case 0, 1, 2, 3, 4:
		p.Kind, p.Op = "cmp", pick(t, cmpOps, name+"_op")
		p.Lits = []tok{genLit(t, "cmp", name+"_l", kInt, kInt, kStr, kStr, kDec)}
	case 5, 6:
		p.Kind = "in"
		p.Not = rapid.IntRange(0, 4).Draw(t, name+"_not") == 0
		k := rapid.SampledFrom([]int{kInt, kInt, kStr}).Draw(t, name+"_ik")
		for i, n := 0, rapid.IntRange(1, 4).Draw(t, name+"_n"); i < n; i++ {
			p.Lits = append(p.Lits, genLit(t, "in", fmt.Sprintf("%s_l%d", name, i), k))
		}
	case 7:
		p.Kind = "between"
		k := rapid.SampledFrom([]int{kInt, kInt, kStr, kDec}).Draw(t, name+"_bk")
		p.Lits = []tok{genLit(t, "between", name+"_l0", k), genLit(t, "between", name+"_l1", k)}
	case 8:
		p.Kind = "like"
		p.Not = rapid.IntRange(0, 4).Draw(t, name+"_not") == 0
		p.Lits = []tok{genLit(t, "like", name+"_l", kStr)}
	case 9:
		p.Kind = "isnull"
		p.Not = rapid.Bool().Draw(t, name+"_not")
	case 10:
		p.Kind, p.Op = "colcmp", pick(t, cmpOps, name+"_op")
		p.Col2 = pickOther(t, columns, p.Col, name+"_c2")
	default:
		p.Kind = "insub"
		p.Col2 = pick(t, columns, name+"_c2")
		p.Table = pick(t, tables, name+"_st")
	}
	return p
}

func genWhere(t *rapid.T, s *spec, min int) {
	n := rapid.SampledFrom([]int{0, 1, 1, 1, 2, 2, 3}).Draw(t, "npred")
	if n < min {
		n = min
	}
	for i := 0; i < n; i++ {
		s.Preds = append(s.Preds, genPred(t, fmt.Sprintf("p%d", i)))
		if i > 0 {
			s.Logic = append(s.Logic, rapid.SampledFrom([]string{"and", "and", "or"}).Draw(t, "logic"))
		}
	}
	if n >= 2 {
		s.Paren = rapid.IntRange(0, 3).Draw(t, "paren") == 0
	}
}

func genTail(t *rapid.T, s *spec) {
	if rapid.IntRange(0, 2).Draw(t, "has_order") == 0 {
		s.Order = pick(t, columns, "order")
		s.Desc = rapid.Bool().Draw(t, "desc")
		if rapid.IntRange(0, 3).Draw(t, "order2") == 0 {
			s.Order2 = pickOther(t, columns, s.Order, "order2c")
		}
	}
	switch rapid.IntRange(0, 5).Draw(t, "has_limit") {
	case 0:
		s.Limit = []tok{genLimit(t, "lim0")}
	case 1:
		s.Limit = []tok{genLimit(t, "lim0"), genLimit(t, "lim1")}
		s.Offset = rapid.Bool().Draw(t, "offset")
	}
}

func genLimit(t *rapid.T, name string) tok {
	return tok{K: kInt, S: fmt.Sprint(rapid.SampledFrom([]int{0, 1, 10, 20, 100, 1000}).Draw(t, name)), R: "lit:limit"}
}

func genSpec(t *rapid.T) spec {
	var s spec
	s.Kind = rapid.SampledFrom([]string{"select", "select", "select", "insert", "update", "delete"}).Draw(t, "kind")
	s.Table = pick(t, tables, "table")
	switch s.Kind {
	case "select":
		switch rapid.IntRange(0, 4).Draw(t, "items") {
		case 0:
			s.Items = []selItem{{Star: true}}
		default:
			for i, n := 0, rapid.IntRange(1, 3).Draw(t, "nitems"); i < n; i++ {
				it := selItem{Col: pick(t, columns, "icol")}
				switch rapid.IntRange(0, 7).Draw(t, "ik") {
				case 0:
					it.Func = pick(t, funcs1, "ifn")
				case 1:
					it.Func, it.Star = "count", true
				case 2:
					it.Func = "concat"
					l := genLit(t, "func", "ilit", kStr, kInt)
					it.Lit = &l
				}
				s.Items = append(s.Items, it)
			}
		}
		if rapid.IntRange(0, 4).Draw(t, "join") == 0 {
			s.Join = true
			s.Left = rapid.Bool().Draw(t, "left")
			s.JTable = pickOther(t, []string{"u", "t2", "orders", "user_info"}, s.Table, "jtable")
			s.JL, s.JR = pick(t, columns, "jl"), pick(t, columns, "jr")
		}
		genWhere(t, &s, 0)
		if rapid.IntRange(0, 5).Draw(t, "group") == 0 {
			s.Group = pick(t, columns, "groupc")
		}
		genTail(t, &s)
	case "insert":
		nc := rapid.IntRange(1, 4).Draw(t, "ncols")
		seen := map[string]bool{}
		for len(s.InsCols) < nc {
			c := pick(t, columns, "inscol")
			if !seen[c] {
				seen[c] = true
				s.InsCols = append(s.InsCols, c)
			}
		}
		nr := rapid.SampledFrom([]int{1, 1, 1, 2, 3}).Draw(t, "nrows")
		kinds := make([]int, nc)
		for i := range kinds {
			kinds[i] = rapid.SampledFrom([]int{kInt, kStr, kStr, kDec}).Draw(t, "colkind")
		}
		for r := 0; r < nr; r++ {
			var row []tok
			for i := 0; i < nc; i++ {
				row = append(row, genLit(t, "values", fmt.Sprintf("v%d_%d", r, i), kinds[i]))
			}
			s.Rows = append(s.Rows, row)
		}
	case "update":
		for i, n := 0, rapid.IntRange(1, 3).Draw(t, "nsets"); i < n; i++ {
			s.Sets = append(s.Sets, pred{Kind: "cmp", Op: "=", Col: pick(t, columns, "setcol"),
				Lits: []tok{genLit(t, "set", fmt.Sprintf("s%d", i), kInt, kStr, kStr, kDec)}})
		}
		genWhere(t, &s, 0)
		if rapid.IntRange(0, 4).Draw(t, "ulimit") == 0 {
			s.Limit = []tok{genLimit(t, "lim0")}
		}
	default:
		genWhere(t, &s, 0)
		genTail(t, &s)
		if len(s.Limit) == 2 {
			s.Limit = s.Limit[:1]
		}
	}
	return s
}

// ---- rendering a spec into tokens ----

type builder struct{ toks []tok }

func (b *builder) kw(ws ...string) {
	for _, w := range ws {
		b.toks = append(b.toks, tok{K: kKw, S: w})
	}
}
func (b *builder) kwr(w, role string) { b.toks = append(b.toks, tok{K: kKw, S: w, R: role}) }
func (b *builder) p(s string)         { b.toks = append(b.toks, tok{K: kPunct, S: s}) }
func (b *builder) pr(s, role string)  { b.toks = append(b.toks, tok{K: kPunct, S: s, R: role}) }
func (b *builder) id(name, role string) {
	parts := strings.Split(name, ".")
	for i, p := range parts {
		if i > 0 {
			b.p(".")
		}
		r := role
		if i < len(parts)-1 {
			r = "schema"
		}
		b.toks = append(b.toks, tok{K: kIdent, S: p, R: r})
	}
}
func (b *builder) lit(l tok, depth int) { l.D = depth; b.toks = append(b.toks, l) }
func (b *builder) commaList(n int, f func(i int)) {
	for i := 0; i < n; i++ {
		if i > 0 {
			b.p(",")
		}
		f(i)
	}
}

func (b *builder) pred(p pred) {
	switch p.Kind {
	case "cmp":
		b.id(p.Col, "column")
		b.pr(p.Op, "cmpop")
		b.lit(p.Lits[0], 0)
	case "colcmp":
		b.id(p.Col, "column")
		b.pr(p.Op, "cmpop")
		b.id(p.Col2, "column")
	case "in", "insub":
		b.id(p.Col, "column")
		if p.Not {
			b.kw("not")
		}
		b.kw("in")
		b.pr("(", "inopen")
		start := len(b.toks)
		if p.Kind == "in" {
			b.commaList(len(p.Lits), func(i int) { b.lit(p.Lits[i], 1) })
		} else {
			b.kw("select")
			b.id(p.Col2, "column")
			b.kw("from")
			b.id(p.Table, "table")
		}
		for i := start; i < len(b.toks); i++ {
			b.toks[i].D = 1
		}
		b.pr(")", "inclose")
	case "between":
		b.id(p.Col, "column")
		b.kw("between")
		b.lit(p.Lits[0], 0)
		b.kw("and")
		b.lit(p.Lits[1], 0)
	case "like":
		b.id(p.Col, "column")
		if p.Not {
			b.kw("not")
		}
		b.kw("like")
		b.lit(p.Lits[0], 0)
	case "isnull":
		b.id(p.Col, "column")
		b.kw("is")
		if p.Not {
			b.kw("not")
		}
		b.kw("null")
	}
}

func (b *builder) where(s spec) {
	if len(s.Preds) == 0 {
		return
	}
	b.kw("where")
	for i, p := range s.Preds {
		if i > 0 {
			b.kwr(s.Logic[i-1], "logic")
		}
		if s.Paren && i == 0 {
			b.p("(")
		}
		b.pred(p)
		if s.Paren && i == 1 {
			b.p(")")
		}
	}
}

func (b *builder) tail(s spec) {
	if s.Order != "" {
		b.kw("order", "by")
		b.id(s.Order, "column")
		if s.Desc {
			b.kw("desc")
		}
		if s.Order2 != "" {
			b.p(",")
			b.id(s.Order2, "column")
		}
	}
	if len(s.Limit) > 0 {
		b.kw("limit")
		b.lit(s.Limit[0], 0)
		if len(s.Limit) > 1 {
			if s.Offset {
				b.kw("offset")
			} else {
				b.p(",")
			}
			b.lit(s.Limit[1], 0)
		}
	}
}

func render(s spec) []tok {
	b := &builder{}
	switch s.Kind {
	case "select":
		b.kw("select")
		b.commaList(len(s.Items), func(i int) {
			it := s.Items[i]
			switch {
			case it.Func == "" && it.Star:
				b.p("*")
			case it.Func == "":
				b.id(it.Col, "column")
			default:
				b.toks = append(b.toks, tok{K: kFunc, S: it.Func, R: "func"})
				b.p("(")
				if it.Star {
					b.p("*")
				} else {
					b.id(it.Col, "column")
				}
				if it.Lit != nil {
					b.p(",")
					b.lit(*it.Lit, 0)
				}
				b.p(")")
			}
		})
		b.kw("from")
		b.id(s.Table, "table")
		if s.Join {
			if s.Left {
				b.kw("left")
			}
			b.kw("join")
			b.id(s.JTable, "table")
			b.kw("on")
			b.id(strings.Trim(lastPart(s.Table), "`")+"."+s.JL, "column")
			b.pr("=", "joinop")
			b.id(strings.Trim(lastPart(s.JTable), "`")+"."+s.JR, "column")
		}
		b.where(s)
		if s.Group != "" {
			b.kw("group", "by")
			b.id(s.Group, "column")
		}
		b.tail(s)
	case "insert":
		b.kw("insert", "into")
		b.id(s.Table, "table")
		b.p("(")
		b.commaList(len(s.InsCols), func(i int) { b.id(s.InsCols[i], "column") })
		b.p(")")
		b.kw("values")
		b.commaList(len(s.Rows), func(r int) {
			b.pr("(", "valopen")
			b.commaList(len(s.Rows[r]), func(i int) { b.lit(s.Rows[r][i], 1) })
			b.pr(")", "valclose")
		})
	case "update":
		b.kw("update")
		b.id(s.Table, "table")
		b.kw("set")
		b.commaList(len(s.Sets), func(i int) {
			b.id(s.Sets[i].Col, "column")
			b.pr("=", "setop")
			b.lit(s.Sets[i].Lits[0], 0)
		})
		b.where(s)
		b.tail(s)
	default:
		b.kw("delete", "from")
		b.id(s.Table, "table")
		b.where(s)
		b.tail(s)
	}
	return b.toks
}

func lastPart(s string) string {
	if i := strings.LastIndex(s, "."); i >= 0 {
		return s[i+1:]
	}
	return s
}

// styleGaps chooses the spacing of the blacklisted text.
func styleGaps(t *rapid.T, toks []tok, name string) []int {
	style := rapid.SampledFrom([]string{"typical", "typical", "tight", "random"}).Draw(t, name+"_style")
	gaps := make([]int, len(toks)-1)
	for i := range gaps {
		switch gapKind(toks, i) {
		case gapFrozen:
			gaps[i] = 0
		case gapRequired:
			gaps[i] = 1
		default:
			a, b := toks[i], toks[i+1]
			switch style {
			case "typical": // a = 1, (a, b), in (1, 2), values (1, 2), count(*)
				switch {
				case a.S == "(" || b.S == ")" || b.S == ",":
					gaps[i] = 0
				case b.S == "(" && a.K == kIdent: // insert into t (a, b): blank; handled as 1
					gaps[i] = 1
				default:
					gaps[i] = 1
				}
			case "tight":
				gaps[i] = 0
			default:
				gaps[i] = rapid.IntRange(0, 1).Draw(t, name+"_g")
			}
		}
	}
	return gaps
}

// ---- mutation of a spec: a structurally different statement ----

// mutate returns a changed copy of s and the name of the change; "" when the drawn change does not apply.
func mutate(t *rapid.T, s spec) (spec, string) {
	m := s
	m.Preds = append([]pred(nil), s.Preds...)
	m.Logic = append([]string(nil), s.Logic...)
	m.Items = append([]selItem(nil), s.Items...)
	m.Sets = append([]pred(nil), s.Sets...)
	m.InsCols = append([]string(nil), s.InsCols...)
	m.Rows = nil
	for _, r := range s.Rows {
		m.Rows = append(m.Rows, append([]tok(nil), r...))
	}
	kinds := []string{"table", "column", "op", "logic", "add_pred", "drop_where", "stmt_kind", "order", "limit", "add_item", "lit_to_column", "in_to_subquery", "func", "negate", "sub_table", "join"}
	k := rapid.SampledFrom(kinds).Draw(t, "mut")
	pi := -1
	if len(m.Preds) > 0 {
		pi = rapid.IntRange(0, len(m.Preds)-1).Draw(t, "mut_pi")
	}
	switch k {
	case "table":
		m.Table = pickOther(t, tables, s.Table, "mut_table")
		return m, k
	case "column":
		switch {
		case pi >= 0:
			m.Preds[pi].Col = pickOther(t, columns, m.Preds[pi].Col, "mut_col")
			if m.Preds[pi].Kind == "colcmp" && strings.EqualFold(m.Preds[pi].Col, m.Preds[pi].Col2) {
				return m, ""
			}
		case s.Kind == "insert":
			i := rapid.IntRange(0, len(m.InsCols)-1).Draw(t, "mut_ci")
			c := pickOther(t, columns, m.InsCols[i], "mut_col")
			for _, o := range m.InsCols {
				if strings.EqualFold(o, c) {
					return m, ""
				}
			}
			m.InsCols[i] = c
		case s.Kind == "update":
			m.Sets[0].Col = pickOther(t, columns, m.Sets[0].Col, "mut_col")
		case len(m.Items) > 0 && !m.Items[0].Star:
			m.Items[0].Col = pickOther(t, columns, m.Items[0].Col, "mut_col")
		default:
			return m, ""
		}
		return m, k
	case "op":
		if pi < 0 || (m.Preds[pi].Kind != "cmp" && m.Preds[pi].Kind != "colcmp") {
			return m, ""
		}
		old := m.Preds[pi].Op
		nw := rapid.SampledFrom([]string{"=", "<", ">", "<=", ">=", "<>"}).Draw(t, "mut_op")
		if nw == old || (old == "!=" && nw == "<>") {
			return m, ""
		}
		m.Preds[pi].Op = nw
		return m, k
	case "logic":
		if len(m.Logic) == 0 {
			return m, ""
		}
		i := rapid.IntRange(0, len(m.Logic)-1).Draw(t, "mut_li")
		if m.Logic[i] == "and" {
			m.Logic[i] = "or"
		} else {
			m.Logic[i] = "and"
		}
		return m, k
	case "add_pred":
		if s.Kind == "insert" {
			return m, ""
		}
		m.Preds = append(m.Preds, genPred(t, "mut_p"))
		if len(m.Preds) > 1 {
			m.Logic = append(m.Logic, "and")
		}
		return m, k
	case "drop_where":
		if len(m.Preds) == 0 {
			return m, ""
		}
		m.Preds, m.Logic, m.Paren = nil, nil, false
		return m, k
	case "stmt_kind":
		switch s.Kind {
		case "select":
			if s.Join || s.Group != "" || len(s.Limit) == 2 {
				return m, ""
			}
			m.Kind, m.Items = "delete", nil
		case "delete":
			m.Kind, m.Items = "select", []selItem{{Star: true}}
		default:
			return m, ""
		}
		return m, k
	case "order":
		if s.Kind == "insert" {
			return m, ""
		}
		switch {
		case m.Order == "":
			m.Order = pick(t, columns, "mut_order")
		case !m.Desc:
			m.Desc = true
		default:
			m.Order = pickOther(t, columns, m.Order, "mut_order")
			if strings.EqualFold(m.Order, m.Order2) {
				return m, ""
			}
		}
		return m, k
	case "limit":
		if s.Kind == "insert" {
			return m, ""
		}
		if len(m.Limit) == 0 {
			m.Limit = []tok{genLimit(t, "mut_lim")}
		} else {
			m.Limit = nil
		}
		return m, k
	case "add_item":
		if s.Kind != "select" {
			return m, ""
		}
		if len(m.Items) == 1 && m.Items[0].Star && m.Items[0].Func == "" {
			m.Items = []selItem{{Col: pick(t, columns, "mut_item")}}
		} else {
			m.Items = append(m.Items, selItem{Col: pick(t, columns, "mut_item")})
		}
		return m, k
	case "lit_to_column":
		// a literal replaced by a column reference
		switch {
		case s.Kind == "insert":
			r := rapid.IntRange(0, len(m.Rows)-1).Draw(t, "mut_r")
			i := rapid.IntRange(0, len(m.Rows[r])-1).Draw(t, "mut_i")
			m.Rows[r][i] = tok{K: kIdent, S: pick(t, columns, "mut_col"), R: "column"}
			return m, "lit_to_column:values"
		case pi >= 0 && m.Preds[pi].Kind == "cmp":
			p := m.Preds[pi]
			p.Kind, p.Col2, p.Lits = "colcmp", pickOther(t, columns, p.Col, "mut_col"), nil
			m.Preds[pi] = p
			return m, "lit_to_column:cmp"
		case pi >= 0 && m.Preds[pi].Kind == "in":
			p := m.Preds[pi]
			p.Lits = append([]tok(nil), p.Lits...)
			i := rapid.IntRange(0, len(p.Lits)-1).Draw(t, "mut_i")
			p.Lits[i] = tok{K: kIdent, S: pickOther(t, columns, p.Col, "mut_col"), R: "column"}
			m.Preds[pi] = p
			return m, "lit_to_column:in"
		}
		return m, ""
	case "in_to_subquery":
		if pi < 0 || m.Preds[pi].Kind != "in" {
			return m, ""
		}
		p := m.Preds[pi]
		p.Kind, p.Lits, p.Col2, p.Table = "insub", nil, pick(t, columns, "mut_col"), pick(t, tables, "mut_table")
		m.Preds[pi] = p
		return m, k
	case "sub_table":
		if pi < 0 || m.Preds[pi].Kind != "insub" {
			return m, ""
		}
		p := m.Preds[pi]
		if rapid.Bool().Draw(t, "mut_which") {
			p.Table = pickOther(t, tables, p.Table, "mut_table")
		} else {
			p.Col2 = pickOther(t, columns, p.Col2, "mut_col")
		}
		m.Preds[pi] = p
		return m, k
	case "func":
		for i, it := range m.Items {
			if it.Func != "" && it.Func != "concat" && !it.Star {
				it.Func = pickOther(t, funcs1, it.Func, "mut_fn")
				m.Items[i] = it
				return m, k
			}
		}
		return m, ""
	case "negate":
		if pi < 0 {
			return m, ""
		}
		switch m.Preds[pi].Kind {
		case "in", "like", "isnull", "insub":
			m.Preds[pi].Not = !m.Preds[pi].Not
			return m, k
		}
		return m, ""
	case "join":
		if s.Kind != "select" || !s.Join {
			return m, ""
		}
		switch rapid.IntRange(0, 2).Draw(t, "mut_j") {
		case 0:
			m.JTable = pickOther(t, []string{"u", "t2", "orders", "user_info"}, s.JTable, "mut_jt")
			if strings.EqualFold(m.JTable, s.Table) {
				return m, ""
			}
		case 1:
			m.JR = pickOther(t, columns, s.JR, "mut_jr")
		default:
			m.Left = !m.Left
		}
		return m, k
	}
	return m, ""
}
