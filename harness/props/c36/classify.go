//go:build verif

package c36

import (
	"fmt"
	"strings"

	"github.com/XiaoMi/Gaea/proxy/server"
)

func tokClass(s stmt, i int) string {
	if i < 0 {
		return "^"
	}
	if i >= len(s.Toks) {
		return "$"
	}
	t := s.Toks[i]
	switch t.K {
	case kKw:
		return "kw:" + strings.ToLower(t.S)
	case kIdent:
		return "ident"
	case kPunct:
		return "'" + t.S + "'"
	case kInt:
		return "int"
	case kDec:
		return "dec"
	case kStr:
		return "str"
	}
	return "func"
}

// signature is a coarse description of an edit and its surroundings (survey mode only).
func signature(s stmt, e edit) string {
	switch e.T {
	case "lit":
		return fmt.Sprintf("lit %s prev=%s next=%s depth=%d old=%s new=%s", tokClass(s, e.At), tokClass(s, e.At-1), tokClass(s, e.At+1), s.Toks[e.At].D, litTraits(s.Toks[e.At].S), litTraits(e.New))
	case "case":
		return fmt.Sprintf("case %s prev=%s next=%s", tokClass(s, e.At), tokClass(s, e.At-1), tokClass(s, e.At+1))
	case "comment":
		style := "block"
		c := strings.TrimLeft(e.New, " \t\r\n")
		if c[0] == '-' {
			style = "dash"
		} else if c[0] == '#' {
			style = "hash"
		}
		return fmt.Sprintf("comment %s prev=%s next=%s gap=%d lead=%v trail=%v", style, tokClass(s, e.At), tokClass(s, e.At+1), gapOf(s, e.At), len(c) != len(e.New), strings.TrimRight(e.New, " \t\r\n") != e.New)
	}
	return fmt.Sprintf("%s prev=%s next=%s", e.T, tokClass(s, e.At), tokClass(s, e.At+1))
}

func gapOf(s stmt, i int) int {
	if i < 0 || i >= len(s.Gaps) {
		return 0
	}
	return s.Gaps[i]
}

func litTraits(l string) string {
	var tr []string
	if l == "" {
		return "-"
	}
	switch l[0] {
	case '\'', '"':
		in := l[1 : len(l)-1]
		if strings.Contains(in, "''") || strings.Contains(in, `""`) {
			tr = append(tr, "doubled_quote")
		}
		if strings.Contains(in, `\`) {
			tr = append(tr, "backslash")
		}
		if strings.ContainsAny(in, "'\"") {
			tr = append(tr, "quote_inside")
		}
		if strings.Contains(in, "/*") || strings.Contains(in, "*/") || strings.Contains(in, "--") || strings.Contains(in, "#") {
			tr = append(tr, "comment_marker")
		}
		if strings.ContainsAny(in, "()") {
			tr = append(tr, "paren")
		}
		if in == "" {
			tr = append(tr, "empty")
		}
		if l[0] == '"' {
			tr = append(tr, "dq")
		}
	case '-', '+':
		tr = append(tr, "signed")
	case '.':
		tr = append(tr, "leading_dot")
	}
	if strings.ContainsAny(l, "eE") && l[0] != '\'' && l[0] != '"' {
		tr = append(tr, "exponent")
	}
	if len(tr) == 0 {
		return "plain"
	}
	return strings.Join(tr, "+")
}

func isLit(s stmt, i int) bool {
	return i >= 0 && i < len(s.Toks) && s.Toks[i].K >= kInt && s.Toks[i].K <= kStr
}

// doubledQuotes counts the quote characters written doubled inside a string literal.
func doubledQuotes(l string) int {
	if len(l) < 2 || (l[0] != '\'' && l[0] != '"') {
		return 0
	}
	return strings.Count(l[1:len(l)-1], l[:1]+l[:1])
}

// listCommentWithSQLChars reports whether one of the responsible edits is a comment inside an
// IN / VALUES list whose text contains a quote or parenthesis (root cause of F8).
func listCommentWithSQLChars(s stmt, edits []edit, culprits []int) bool {
	for _, i := range culprits {
		e := edits[i]
		if e.T != "comment" {
			continue
		}
		next := e.At + 1
		inList := (e.At >= 0 && s.Toks[e.At].D > 0) || (next < len(s.Toks) && s.Toks[next].D > 0)
		if inList && strings.ContainsAny(e.New, "'\"()") {
			return true
		}
	}
	return false
}

// gapText is the whitespace of gap g after the whitespace edits.
func gapText(s stmt, edits []edit, g int) string {
	w := ""
	if g >= 0 && g < len(s.Gaps) {
		w = strings.Repeat(" ", s.Gaps[g])
	}
	for _, e := range edits {
		if e.At == g {
			switch e.T {
			case "ws", "ws_add":
				w = e.New
			case "ws_del":
				w = ""
			}
		}
	}
	return w
}

func gapHasComment(edits []edit, g int) bool {
	for _, e := range edits {
		if e.T == "comment" && e.At == g {
			return true
		}
	}
	return false
}

// listRegion reports whether token i belongs to an IN / VALUES list: inside its parentheses, one of
// the parentheses, or the comma between two VALUES rows.
func listRegion(s stmt, i int) bool {
	if i < 0 || i >= len(s.Toks) {
		return false
	}
	t := s.Toks[i]
	switch t.R {
	case "inopen", "inclose", "valopen", "valclose":
		return true
	}
	if t.D > 0 {
		return true
	}
	if t.S == "," && i > 0 && i+1 < len(s.Toks) {
		a, b := s.Toks[i-1], s.Toks[i+1]
		return a.D > 0 || b.D > 0 || a.R == "valclose" || b.R == "valopen"
	}
	return false
}

// classifyEdit maps a responsible edit to the known finding whose root cause it matches ("" = none).
func classifyEdit(s stmt, edits []edit, culprits []int, i int) string {
	e := edits[i]
	switch e.T {
	case "ws_add", "ws_del":
		// F1: the fingerprint keeps whether there is whitespace next to punctuation
		return "C36-F1"
	case "comment":
		if e.At >= 0 && e.At < len(s.Gaps) && s.Gaps[e.At] == 0 {
			// a comment where the blacklisted text has no whitespace: removing it leaves spacing that differs (F1)
			return "C36-F1"
		}
		next := e.At + 1
		body := strings.TrimLeft(e.New, " \t\r\n")
		if body[0] == '/' && len(body) == len(e.New) && e.At >= 0 && gapText(s, edits, e.At) == "" {
			// F6: a block comment attached to the end of a word drops that word from the fingerprint
			return "C36-F6"
		}
		if isLit(s, next) {
			// F2: a comment directly before a literal value is copied into the fingerprint
			return "C36-F2"
		}
		if next < len(s.Toks) && (s.Toks[next].R == "inopen" || s.Toks[next].R == "valopen") {
			// F3: a comment between IN / VALUES (or the comma of the previous row) and the parenthesis
			// keeps the list from being collapsed
			return "C36-F3"
		}
		if e.At >= 0 && s.Toks[e.At].R == "valclose" && next < len(s.Toks) && s.Toks[next].S == "," {
			return "C36-F3"
		}
		if body[0] == '-' && e.At < len(s.Toks)-1 {
			// F7: the "-- " handler rewinds the copy offset and leaves the add-a-blank flag set; text after
			// the comment is then copied with a stray blank or with skipped text ("where -- c\na=1" -> "where a= ?")
			return "C36-F7"
		}
		inList := (e.At >= 0 && s.Toks[e.At].D > 0) || (next < len(s.Toks) && s.Toks[next].D > 0)
		if inList && strings.ContainsAny(body, "'\"()") {
			// F8: inside the parentheses of IN / VALUES comments are not recognised: a quote or
			// parenthesis in the comment text is taken for SQL
			return "C36-F8"
		}
	case "ws":
		// F8: once a comment with a quote / parenthesis stands inside an IN / VALUES list, the text of the
		// list (string values included) is scanned as SQL, so a newline instead of a blank inside or
		// next to that list can change the fingerprint; only together with such a comment
		if (listRegion(s, e.At) || listRegion(s, e.At+1)) && listCommentWithSQLChars(s, edits, culprits) {
			return "C36-F8"
		}
	case "lit":
		old := s.Toks[e.At].S
		if s.Toks[e.At].K == kDec && (strings.HasPrefix(strings.TrimLeft(old, "+-"), ".") != strings.HasPrefix(strings.TrimLeft(e.New, "+-"), ".")) {
			// F4: a decimal literal without integer part (.5) becomes ".?"
			return "C36-F4"
		}
		if s.Toks[e.At].K == kStr && doubledQuotes(old) != doubledQuotes(e.New) {
			// F5: a quote doubled inside a string literal ends the literal for the fingerprint, so the
			// number of "?" depends on how many doubled quotes the value holds
			return "C36-F5"
		}
		if s.Toks[e.At].D > 0 && listCommentWithSQLChars(s, edits, culprits) {
			// F8: a quote in a comment inside the list pairs up with the quotes of the list's string
			// values, so the fingerprint depends on the value once such a comment is present
			return "C36-F8"
		}
	}
	return ""
}

// outerShape is the structure of a statement without what stands between the parentheses of IN / VALUES lists.
func outerShape(s stmt) string {
	var o stmt
	for _, t := range s.Toks {
		if t.D == 0 {
			o.Toks = append(o.Toks, t)
		}
	}
	return shape(o)
}

// classifyMutant maps a rejected structural mutant to a known finding ("" = none).
func classifyMutant(c sqlCase, target stmt, ns *server.Namespace) string {
	// F9: everything between the parentheses of IN (...) / VALUES (...) is collapsed to (?+), also
	// column references and subqueries; only mutants whose whole difference lies there are accepted as known
	if outerShape(c.Base) == outerShape(target) {
		return "C36-F9"
	}
	return ""
}
