//go:build verif

// C36 The SQL blacklist ignores literals, spacing, case and comments.
//
// Metamorphic, through server.NewNamespace(cfg) with the base statement as the
// only blacklist entry: IsSQLAllowed must be false for every variant that
// differs from the base only in literal values, whitespace, keyword case or
// comments, and true for every structurally different statement. Statements are
// token lists built from a grammar (gen.go); a variant is the target token list
// plus a list of edits, so that a failing variant can be reduced to the edits
// that cause the failure and those can be classified.
package c36

import (
	"fmt"
	"os"
	"sort"
	"strings"
	"testing"

	"github.com/XiaoMi/Gaea/log"
	"github.com/XiaoMi/Gaea/models"
	"github.com/XiaoMi/Gaea/proxy/server"
	"github.com/XiaoMi/Gaea/util"
	"pgregory.net/rapid"
	"verifharness/internal/fakepool"
	"verifharness/internal/pbt"
)

func init() { log.SetGlobalLogger(fakepool.NullLogger{}) }

// edit is one equivalence-preserving change of the target statement.
type edit struct {
	// T: "lit"      replace literal token At by New (same kind)
	//    "case"     re-case keyword token At as New
	//    "ws"       replace the whitespace of gap At by New (gap had whitespace in the base)
	//    "ws_add"   put whitespace New into gap At that had none (next to punctuation)
	//    "ws_del"   remove the whitespace of gap At (next to punctuation)
	//    "comment"  append comment text New (with its own surrounding blanks) to gap At;
	//               gap -1 is before the first token, gap len(Toks)-1 after the last
	T   string `json:"t"`
	At  int    `json:"at"`
	New string `json:"new"`
}

type sqlCase struct {
	Base   stmt   `json:"base"`
	Target *stmt  `json:"target,omitempty"` // nil: the base itself (equivalent variant); else a structural mutant
	Mut    string `json:"mut,omitempty"`    // kind of structural change
	Edits  []edit `json:"edits"`
}

func (s stmt) text() string {
	var sb strings.Builder
	for i, t := range s.Toks {
		sb.WriteString(t.S)
		if i < len(s.Gaps) {
			sb.WriteString(strings.Repeat(" ", s.Gaps[i]))
		}
	}
	return sb.String()
}

// apply renders the target with the enabled edits.
func apply(s stmt, edits []edit, on []bool) string {
	n := len(s.Toks)
	toks := make([]string, n)
	for i, t := range s.Toks {
		toks[i] = t.S
	}
	ws := make([]string, n+1) // ws[i+1]: gap i; ws[0]: before the first token
	com := make([]string, n+1)
	for i, g := range s.Gaps {
		ws[i+1] = strings.Repeat(" ", g)
	}
	for i, e := range edits {
		if on != nil && !on[i] {
			continue
		}
		switch e.T {
		case "lit", "case":
			toks[e.At] = e.New
		case "ws", "ws_add":
			ws[e.At+1] = e.New
		case "ws_del":
			ws[e.At+1] = ""
		case "comment":
			com[e.At+1] += e.New
		}
	}
	var sb strings.Builder
	sb.WriteString(ws[0] + com[0])
	for i := range toks {
		sb.WriteString(toks[i])
		sb.WriteString(ws[i+1] + com[i+1])
	}
	return sb.String()
}

func isBlank(s string) bool { return strings.Trim(s, " \t\r\n") == "" }

func isComment(s string) bool {
	c := strings.Trim(s, " \t\r\n")
	switch {
	case strings.HasPrefix(c, "/*"):
		return len(c) >= 4 && strings.HasSuffix(c, "*/") && !strings.Contains(c[2:len(c)-2], "*/") && c[2] != '!' && c[2] != '+'
	case strings.HasPrefix(c, "-- "), c == "--", strings.HasPrefix(c, "#"):
		return !strings.ContainsAny(c, "\r\n")
	}
	return false
}

func litKindOK(k int, s string) bool {
	if s == "" {
		return false
	}
	switch k {
	case kInt:
		d := strings.TrimLeft(s, "+-")
		return len(s)-len(d) <= 1 && d != "" && strings.Trim(d, "0123456789") == ""
	case kDec:
		return strings.ContainsAny(s, ".eE") && strings.Trim(s, "0123456789.eE+-") == ""
	case kStr:
		return len(s) >= 2 && (s[0] == '\'' || s[0] == '"') && s[len(s)-1] == s[0]
	}
	return false
}

// validate checks that the edits are equivalence-preserving for the target (so that a
// hand-written or replayed case cannot smuggle in a structural change).
func validate(s stmt, edits []edit) string {
	n := len(s.Toks)
	if n == 0 || len(s.Gaps) != n-1 {
		return "malformed statement"
	}
	for i := range s.Gaps {
		switch gapKind(s.Toks, i) {
		case gapFrozen:
			if s.Gaps[i] != 0 {
				return "blank inside a qualified name or before a call parenthesis"
			}
		case gapRequired:
			if s.Gaps[i] != 1 {
				return "missing separator"
			}
		default:
			if s.Gaps[i] < 0 || s.Gaps[i] > 1 {
				return "bad gap"
			}
		}
	}
	wsSeen := map[int]bool{}
	comSeen := map[int]bool{}
	for _, e := range edits {
		switch e.T {
		case "lit":
			if e.At < 0 || e.At >= n || s.Toks[e.At].K < kInt || s.Toks[e.At].K > kStr || !litKindOK(s.Toks[e.At].K, e.New) {
				return "literal edit does not keep the literal kind"
			}
		case "case":
			if e.At < 0 || e.At >= n || s.Toks[e.At].K != kKw || !strings.EqualFold(e.New, s.Toks[e.At].S) {
				return "case edit is not a re-casing of a keyword"
			}
		case "ws", "ws_add", "ws_del":
			if e.At < 0 || e.At >= n-1 || wsSeen[e.At] {
				return "whitespace edit out of range or repeated"
			}
			wsSeen[e.At] = true
			gk := gapKind(s.Toks, e.At)
			switch {
			case gk == gapFrozen:
				return "whitespace edit in a frozen gap"
			case e.T == "ws" && (s.Gaps[e.At] == 0 || e.New == "" || !isBlank(e.New)):
				return "ws edit must replace existing whitespace by whitespace"
			case e.T == "ws_add" && (s.Gaps[e.At] != 0 || gk != gapOptional || e.New == "" || !isBlank(e.New)):
				return "ws_add edit must add whitespace next to punctuation"
			case e.T == "ws_del" && (s.Gaps[e.At] == 0 || gk != gapOptional):
				return "ws_del edit must remove optional whitespace"
			}
		case "comment":
			if e.At < -1 || e.At > n-1 || !isComment(e.New) {
				return "not a comment"
			}
			if comSeen[e.At] {
				return "more than one comment at one position"
			}
			comSeen[e.At] = true
			if e.At >= 0 && e.At < n-1 && gapKind(s.Toks, e.At) == gapFrozen {
				return "comment in a frozen gap"
			}
			c := strings.TrimLeft(e.New, " \t\r\n")
			if c[0] != '/' {
				// one-line comment: must be preceded by a blank and closed by a newline unless it ends the statement
				if len(c) == len(e.New) && e.At != -1 {
					return "one-line comment without a blank before it"
				}
				if e.At != n-1 && !strings.HasSuffix(strings.TrimRight(e.New, " \t"), "\n") {
					return "one-line comment not closed by a newline"
				}
			}
		default:
			return "unknown edit"
		}
	}
	return ""
}

// shape is the structure of a statement: keywords lower-cased, literals replaced by their kind.
func shape(s stmt) string {
	var sb strings.Builder
	for _, t := range s.Toks {
		switch t.K {
		case kKw, kFunc:
			sb.WriteString(strings.ToLower(t.S))
		case kInt, kDec, kStr:
			fmt.Fprintf(&sb, "<lit%d>", t.K)
		default:
			sb.WriteString(t.S)
		}
		sb.WriteByte(' ')
	}
	return sb.String()
}

// ---- generation of cases ----

var wsRuns = []string{"  ", "\t", "\n", " \n ", "\r\n", "   ", "\t \t", "\n\n", " \t"}
var blockBodies = []string{" c ", "", " comment text ", " select * from x ", " it's ", " a = 1 ", "*", " ** ", " -- x ", " # y ", " \"q ", " line1\nline2 ", " (x) ", " ? ", " values (1) ", " 中 "}
var lineBodies = []string{"c", "comment text", "drop table t", "it's", "/* x */", "a \"b", "x = 1", "", "(", "in (1)"}

func genComment(t *rapid.T, atStart, atEnd bool, name string) string {
	switch rapid.IntRange(0, 5).Draw(t, name+"_style") {
	case 0, 1, 2:
		c := "/*" + rapid.SampledFrom(blockBodies).Draw(t, name+"_body") + "*/"
		pre := rapid.SampledFrom([]string{"", "", " ", "\n"}).Draw(t, name+"_pre")
		post := rapid.SampledFrom([]string{" ", " ", "", "\n"}).Draw(t, name+"_post")
		return pre + c + post
	case 3, 4:
		c := "-- " + rapid.SampledFrom(lineBodies).Draw(t, name+"_body")
		if !atEnd || rapid.Bool().Draw(t, name+"_nl") {
			c += "\n"
		}
		if atStart && rapid.Bool().Draw(t, name+"_bare") {
			return c
		}
		return " " + c
	default:
		c := "#" + rapid.SampledFrom(lineBodies).Draw(t, name+"_body")
		if !atEnd || rapid.Bool().Draw(t, name+"_nl") {
			c += "\n"
		}
		if atStart && rapid.Bool().Draw(t, name+"_bare") {
			return c
		}
		return " " + c
	}
}

func recase(t *rapid.T, w string, mode int, name string) string {
	switch mode {
	case 0:
		return strings.ToUpper(w)
	case 1:
		if rapid.Bool().Draw(t, name) {
			return strings.ToUpper(w)
		}
		return w
	case 2:
		return strings.ToUpper(w[:1]) + w[1:]
	}
	b := []byte(w)
	for i := range b {
		if i%2 == 0 {
			b[i] = strings.ToUpper(string(b[i]))[0]
		}
	}
	return string(b)
}

func genEdits(t *rapid.T, s stmt, withTightWS bool) []edit {
	var edits []edit
	n := len(s.Toks)
	// which families of change this variant uses (at least one)
	fam := rapid.IntRange(1, 15).Draw(t, "families")
	useLit, useWS, useCase, useCom := fam&1 != 0, fam&2 != 0, fam&4 != 0, fam&8 != 0
	caseMode := rapid.IntRange(0, 3).Draw(t, "case_mode")
	for i, tk := range s.Toks {
		switch {
		case tk.K >= kInt && tk.K <= kStr && useLit && rapid.IntRange(0, 2).Draw(t, "lit_on") > 0:
			edits = append(edits, edit{T: "lit", At: i, New: sameKind(t, tk, "lit_new")})
		case tk.K == kKw && useCase:
			if nw := recase(t, tk.S, caseMode, "case_on"); nw != tk.S {
				edits = append(edits, edit{T: "case", At: i, New: nw})
			}
		}
	}
	if useWS {
		for i, g := range s.Gaps {
			if g == 1 && rapid.IntRange(0, 2).Draw(t, "ws_on") == 0 {
				edits = append(edits, edit{T: "ws", At: i, New: rapid.SampledFrom(wsRuns).Draw(t, "ws_new")})
			}
		}
	}
	comAt := map[int]bool{}
	if useCom {
		for c, nc := 0, rapid.IntRange(1, 2).Draw(t, "ncom"); c < nc; c++ {
			// comments go where the base has whitespace, before the statement or after it
			var places []int
			for i, g := range s.Gaps {
				if g == 1 {
					places = append(places, i)
				}
			}
			places = append(places, -1, n-1, n-1)
			at := places[rapid.IntRange(0, len(places)-1).Draw(t, "com_at")]
			if comAt[at] {
				continue // one comment per position
			}
			comAt[at] = true
			edits = append(edits, edit{T: "comment", At: at, New: genComment(t, at == -1, at == n-1, "com")})
		}
	}
	if withTightWS {
		var opt []int
		for i := range s.Gaps {
			if gapKind(s.Toks, i) == gapOptional {
				opt = append(opt, i)
			}
		}
		used := map[int]bool{}
		for _, e := range edits {
			if e.T == "ws" {
				used[e.At] = true
			}
		}
		for c, nc := 0, rapid.IntRange(1, 2).Draw(t, "ntight"); c < nc && len(opt) > 0; c++ {
			at := opt[rapid.IntRange(0, len(opt)-1).Draw(t, "tight_at")]
			if used[at] {
				continue
			}
			used[at] = true
			switch {
			case s.Gaps[at] == 0 && !comAt[at] && rapid.IntRange(0, 3).Draw(t, "tight_com") == 0:
				// a block comment where the base has no whitespace at all
				edits = append(edits, edit{T: "comment", At: at, New: "/*" + rapid.SampledFrom(blockBodies).Draw(t, "tight_body") + "*/"})
			case s.Gaps[at] == 0:
				edits = append(edits, edit{T: "ws_add", At: at, New: rapid.SampledFrom([]string{" ", " ", "  ", "\n", "\t"}).Draw(t, "tight_ws")})
			default:
				edits = append(edits, edit{T: "ws_del", At: at})
			}
		}
	}
	return edits
}

func genEquiv(t *rapid.T) sqlCase {
	sp := genSpec(t)
	toks := render(sp)
	base := stmt{Toks: toks, Gaps: styleGaps(t, toks, "base")}
	tight := rapid.IntRange(0, 3).Draw(t, "with_tight") == 0
	return sqlCase{Base: base, Edits: genEdits(t, base, tight)}
}

func genMutant(t *rapid.T) sqlCase {
	sp := genSpec(t)
	toks := render(sp)
	base := stmt{Toks: toks, Gaps: styleGaps(t, toks, "base")}
	var m spec
	var kind string
	for i := 0; i < 8 && kind == ""; i++ {
		m, kind = mutate(t, sp)
	}
	if kind == "" {
		m, kind = sp, "table"
		m.Table = pickOther(t, tables, sp.Table, "fallback_table")
	}
	mt := render(m)
	target := stmt{Toks: mt, Gaps: styleGaps(t, mt, "target")}
	c := sqlCase{Base: base, Target: &target, Mut: kind}
	if rapid.Bool().Draw(t, "mut_edits") {
		c.Edits = genEdits(t, target, false)
	}
	return c
}

// ---- the property ----

var survey = os.Getenv("C36_SURVEY") != ""

func newNS(black string) (*server.Namespace, error) {
	cfg := &models.Namespace{Name: "ns_c36", DefaultSlice: "slice-0", Slices: []*models.Slice{{Name: "slice-0"}}, BlackSQL: []string{black}}
	return server.NewNamespace(cfg, "")
}

func describeEdit(s stmt, e edit) string {
	ctx := func(i int) string {
		if i < 0 {
			return "^"
		}
		if i >= len(s.Toks) {
			return "$"
		}
		return s.Toks[i].S
	}
	switch e.T {
	case "lit", "case":
		return fmt.Sprintf("%s[%d] %q -> %q (after %q, before %q)", e.T, e.At, s.Toks[e.At].S, e.New, ctx(e.At-1), ctx(e.At+1))
	}
	return fmt.Sprintf("%s[gap %d between %q and %q] %q", e.T, e.At, ctx(e.At), ctx(e.At+1), e.New)
}

func checkCase(c sqlCase) (o pbt.Outcome) {
	target := c.Base
	mutant := c.Target != nil
	if mutant {
		target = *c.Target
	}
	if len(c.Base.Toks) > 400 || len(target.Toks) > 400 || len(c.Edits) > 400 {
		o.Skip = "oversized case"
		return
	}
	if why := validate(c.Base, nil); why != "" {
		o.Skip = "base: " + why
		return
	}
	if why := validate(target, c.Edits); why != "" {
		o.Skip = "target: " + why
		return
	}
	if mutant && shape(c.Base) == shape(target) {
		o.Skip = "mutant has the structure of the base"
		return
	}
	baseText := c.Base.text()
	var ns *server.Namespace
	var err error
	if p := pbt.Catch(func() { ns, err = newNS(baseText) }); p != "" {
		o.Violation = fmt.Sprintf("NewNamespace with black_sql %q panicked: %s", baseText, p)
		return
	}
	if err != nil {
		o.Violation = fmt.Sprintf("NewNamespace rejected the configuration with black_sql %q: %v", baseText, err)
		return
	}
	defer ns.Close(false)
	rejected := func(sql string) (r bool, panicked string) {
		panicked = pbt.Catch(func() { r = !ns.IsSQLAllowed(util.NewRequestContext(), sql) })
		return
	}
	// sanity: the blacklisted text itself
	if r, p := rejected(baseText); p != "" || !r {
		o.Violation = fmt.Sprintf("the blacklisted statement itself %q is not rejected (panic %q)", baseText, p)
		return
	}
	fams := map[string]bool{}
	for _, e := range c.Edits {
		fams[e.T] = true
		o.Labels = append(o.Labels, "edit_"+e.T)
	}
	o.Labels = append(o.Labels, "stmt_"+strings.ToLower(c.Base.Toks[0].S))
	variant := apply(target, c.Edits, nil)

	if mutant {
		o.Labels = append(o.Labels, "mutant_"+c.Mut)
		o.NonTrivial = true
		r, p := rejected(variant)
		if p != "" {
			detail := fmt.Sprintf("IsSQLAllowed(%q) panicked: %s", variant, p)
			o.Violation = detail
			return
		}
		if !r {
			return
		}
		detail := fmt.Sprintf("blacklisted %q; structurally different statement (%s) %q is rejected", baseText, c.Mut, variant)
		if id := classifyMutant(c, target, ns); id != "" {
			o.Known, o.KnownWhat = id, detail
			return
		}
		// the bare mutant is allowed and only its equivalence edits make it collide with the base
		// (an attached comment that drops the distinguishing word, ...): reduce to the responsible
		// edits and accept the case as known only if every one of them matches an open finding
		if bare, _ := rejected(apply(target, nil, nil)); !bare && len(c.Edits) > 0 {
			keep := make([]bool, len(c.Edits))
			for i := range keep {
				keep[i] = true
			}
			for changed := true; changed; {
				changed = false
				for i := range keep {
					if !keep[i] {
						continue
					}
					keep[i] = false
					if rr, _ := rejected(apply(target, c.Edits, keep)); !rr {
						keep[i] = true
					} else {
						changed = true
					}
				}
			}
			var culprits []int
			for i := range keep {
				if keep[i] {
					culprits = append(culprits, i)
				}
			}
			known, all := "", len(culprits) > 0
			var descs []string
			for _, i := range culprits {
				id := classifyEdit(target, c.Edits, culprits, i)
				if id == "" {
					all = false
				} else if known == "" {
					known = id
				}
				descs = append(descs, describeEdit(target, c.Edits[i]))
			}
			detail += "; the mutant without edits is allowed; responsible edits: " + strings.Join(descs, "; ")
			if all {
				o.Known, o.KnownWhat = known, detail
				return
			}
		}
		if survey {
			o.Labels = append(o.Labels, "collision: "+c.Mut)
			return
		}
		o.Violation = detail
		return
	}

	o.NonTrivial = len(c.Edits) >= 2
	r, p := rejected(variant)
	if p != "" {
		detail := fmt.Sprintf("IsSQLAllowed(%q) panicked: %s", variant, p)
		o.Violation = detail
		return
	}
	if r {
		return
	}
	// the variant slipped through: find the edits responsible
	on := make([]bool, len(c.Edits))
	for i := range on {
		on[i] = true
	}
	var culprits []int
	for round := 0; round < 20; round++ {
		if rr, _ := rejected(apply(target, c.Edits, on)); rr {
			break
		}
		// one-minimal subset of the enabled edits that still slips through
		// (passes are repeated until nothing more can be dropped: an edit that was needed while
		// another, later dropped, edit was still enabled may have become unnecessary)
		keep := append([]bool(nil), on...)
		for changed := true; changed; {
			changed = false
			for i := range keep {
				if !keep[i] {
					continue
				}
				keep[i] = false
				if rr, _ := rejected(apply(target, c.Edits, keep)); rr {
					keep[i] = true
				} else {
					changed = true
				}
			}
		}
		any := false
		for i := range keep {
			if keep[i] {
				culprits = append(culprits, i)
				on[i] = false
				any = true
			}
		}
		if !any {
			break
		}
	}
	sort.Ints(culprits)
	var descs []string
	known := ""
	unclassified := false
	for _, i := range culprits {
		id := classifyEdit(target, c.Edits, culprits, i)
		d := describeEdit(target, c.Edits[i])
		if id == "" {
			unclassified = true
			d = "UNCLASSIFIED " + d
			if survey {
				o.Labels = append(o.Labels, "culprit: "+signature(target, c.Edits[i]))
				fmt.Printf("SURVEY %s | %q -> %q\n", signature(target, c.Edits[i]), baseText, variant)
			}
		} else if known == "" {
			known = id
		}
		descs = append(descs, d)
	}
	detail := fmt.Sprintf("blacklisted %q; equivalent variant %q is allowed; responsible edits: %s", baseText, variant, strings.Join(descs, "; "))
	if len(culprits) == 0 {
		unclassified = true
	}
	if unclassified {
		if survey {
			return
		}
		o.Violation = detail
		return
	}
	o.Known, o.KnownWhat = known, detail
	return
}

func TestC36Equivalent(t *testing.T) {
	pbt.Run(t, pbt.Spec{ID: "C36", Sub: "equivalent", Quick: 14000, Thorough: 140000,
		Rule:  "base = SELECT/INSERT/UPDATE/DELETE from a token grammar (joins, IN lists and subqueries, BETWEEN, LIKE, IS NULL, parenthesised predicates, functions, GROUP/ORDER BY, LIMIT; typical, tight or random spacing) blacklisted as text; variant = same tokens with edits from a drawn non-empty subset of {literals replaced by literals of the same kind, whitespace runs replaced, keywords re-cased, /* */, -- and # comments inserted where the base has whitespace, before or after the statement}; a quarter of the cases additionally add or remove whitespace (or put a block comment) next to punctuation where the base had none; must be rejected; non-trivial = at least 2 edits",
		Floor: 0.6}, genEquiv, checkCase)
}

func TestC36Mutant(t *testing.T) {
	pbt.Run(t, pbt.Spec{ID: "C36", Sub: "mutant", Quick: 6000, Thorough: 60000,
		Rule:  "base as in the equivalent sub-check; target = the base specification with one structural change (other table, column, operator, AND/OR, added predicate, dropped WHERE, SELECT<->DELETE, ORDER BY, LIMIT, select item, function, NOT, join, literal replaced by a column, IN list replaced by a subquery, table or column inside an IN subquery), rendered with its own spacing and, half of the time, further equivalence edits; must be allowed; every case is non-trivial",
		Floor: 0.9}, genMutant, checkCase)
}
