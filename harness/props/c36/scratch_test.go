//go:build verif

package c36

import (
	"bufio"
	"fmt"
	"os"
	"testing"
	"strings"

	"github.com/XiaoMi/Gaea/mysql"
)

func TestScratch(t *testing.T) {
	f, err := os.Open(os.Getenv("SCRATCH_SQL"))
	if err != nil {
		t.Skip()
	}
	sc := bufio.NewScanner(f)
	for sc.Scan() {
		q := strings.ReplaceAll(sc.Text(), `\n`, "\n")
		q = strings.ReplaceAll(q, `\t`, "\t")
		fmt.Printf("%-60q -> %q\n", q, mysql.GetFingerprint(q))
	}
}
