//go:build verif

package c36

import (
	"fmt"
	"strings"
	"sync/atomic"
	"testing"

	"github.com/XiaoMi/Gaea/models"
	"github.com/XiaoMi/Gaea/util"
	"pgregory.net/rapid"
	"verifharness/internal/fakemysql"
	"verifharness/internal/pbt"
	"verifharness/internal/proxyfix"
	"verifharness/internal/rawclient"
)

// End to end: the base statement is the black_sql of a namespace installed on the
// live proxy; variants and mutants are sent by a real client session as COM_QUERY,
// through prepare/execute, or (namespace and client with multi-statement support)
// as the only or the second statement of a packet. The oracle is anchored on the
// function-level answer of the installed namespace: what IsSQLAllowed rejects must
// come back as an error and must not reach the backend; what it allows must not be
// answered "sql in blacklist" and, when answered OK, must have reached the backend.
// Function-level mismatches are classified with the open findings as in the
// function-level sub-checks.

type liveVariant struct {
	Target *stmt  `json:"target,omitempty"` // nil: the base (equivalent variant)
	Mut    string `json:"mut,omitempty"`
	Edits  []edit `json:"edits"`
	// Mode: query = COM_QUERY; prepared = COM_STMT_PREPARE + COM_STMT_EXECUTE without parameters;
	// second = COM_QUERY "select 424242;<statement>" (multi-statement cases only)
	Mode string `json:"mode"`
}

type liveCase struct {
	Base     stmt          `json:"base"`
	Multi    bool          `json:"multi"` // namespace support_multi_query + client CLIENT_MULTI_STATEMENTS
	Variants []liveVariant `json:"variants"`
}

const prefixStmt = "select 424242"

func genLive(t *rapid.T) liveCase {
	sp := genSpec(t)
	toks := render(sp)
	c := liveCase{Base: stmt{Toks: toks, Gaps: styleGaps(t, toks, "base")}, Multi: rapid.IntRange(0, 3).Draw(t, "multi") == 0}
	for i, n := 0, rapid.IntRange(3, 6).Draw(t, "nvar"); i < n; i++ {
		var v liveVariant
		if rapid.IntRange(0, 2).Draw(t, "is_mutant") == 0 {
			var m spec
			var kind string
			for j := 0; j < 8 && kind == ""; j++ {
				m, kind = mutate(t, sp)
			}
			if kind == "" {
				m, kind = sp, "table"
				m.Table = pickOther(t, tables, sp.Table, "fallback_table")
			}
			mt := render(m)
			target := stmt{Toks: mt, Gaps: styleGaps(t, mt, "target")}
			v.Target, v.Mut = &target, kind
			if rapid.Bool().Draw(t, "mut_edits") {
				v.Edits = genEdits(t, target, false)
			}
		} else {
			v.Edits = genEdits(t, c.Base, rapid.IntRange(0, 5).Draw(t, "with_tight") == 0)
			// the session path classifies a statement by its first word before the blacklist is
			// consulted: put a comment in front of the statement in a third of the variants
			if rapid.IntRange(0, 2).Draw(t, "lead_comment") == 0 {
				has := false
				for _, e := range v.Edits {
					if e.T == "comment" && e.At == -1 {
						has = true
					}
				}
				if !has {
					v.Edits = append(v.Edits, edit{T: "comment", At: -1, New: genComment(t, true, false, "lead")})
				}
			}
		}
		modes := []string{"query", "query", "prepared"}
		if c.Multi {
			modes = []string{"query", "second", "second", "prepared"}
		}
		v.Mode = rapid.SampledFrom(modes).Draw(t, "mode")
		c.Variants = append(c.Variants, v)
	}
	return c
}

var liveCounter int64

// reachedBackend reports whether a data statement (not session set-up, health probe or our prefix) arrived.
func reachedBackend(evs []fakemysql.Event) (bool, string) {
	for _, ev := range evs {
		if ev.Kind != "query" {
			continue
		}
		q := strings.ToLower(strings.TrimSpace(ev.SQL))
		if q == "select 1" || q == prefixStmt || strings.HasPrefix(q, "set ") || strings.HasPrefix(q, "use ") || strings.HasPrefix(q, "show ") {
			continue
		}
		return true, ev.SQL
	}
	return false, ""
}

func isBlacklistErr(e *rawclient.Error) bool {
	return e != nil && strings.Contains(e.Message, "sql in blacklist")
}

func checkLive(c liveCase) (o pbt.Outcome) {
	if len(c.Variants) > 16 || len(c.Base.Toks) > 400 {
		o.Skip = "oversized case"
		return
	}
	if why := validate(c.Base, nil); why != "" {
		o.Skip = "base: " + why
		return
	}
	for _, v := range c.Variants {
		target := c.Base
		if v.Target != nil {
			target = *v.Target
			if shape(c.Base) == shape(target) {
				o.Skip = "mutant has the structure of the base"
				return
			}
		}
		if why := validate(target, v.Edits); why != "" {
			o.Skip = "target: " + why
			return
		}
		if v.Mode != "query" && v.Mode != "prepared" && !(v.Mode == "second" && c.Multi) {
			o.Skip = "unknown mode"
			return
		}
	}
	px, err := proxyfix.Shared()
	if err != nil {
		o.Skip = "fixture: " + err.Error()
		return
	}
	n := atomic.AddInt64(&liveCounter, 1)
	specs := []proxyfix.SliceSpec{{Name: "slice-0", Capacity: 2, MaxCapacity: 4}}
	cl, err := proxyfix.NewCluster(specs)
	if err != nil {
		o.Skip = "cluster: " + err.Error()
		return
	}
	defer cl.Close()
	master := cl.Masters["slice-0"]
	name, user := proxyfix.UniqueName("c36ns", n), proxyfix.UniqueName("c36u", n)
	nsCfg := proxyfix.BaseNamespace(name, cl.SliceConfigs(specs), []*models.User{{UserName: user, Password: "pw", RWFlag: 2, RWSplit: 0}})
	baseText := c.Base.text()
	nsCfg.BlackSQL = []string{baseText}
	nsCfg.SupportMultiQuery = c.Multi
	var ierr error
	if p := pbt.Catch(func() { ierr = px.Install(nsCfg) }); p != "" {
		o.Violation = fmt.Sprintf("installing a namespace with black_sql %q panicked: %s", baseText, p)
		return
	}
	if ierr != nil {
		o.Skip = "install: " + ierr.Error()
		return
	}
	defer px.Remove(name)
	caps := uint32(0)
	if c.Multi {
		caps = rawclient.ClientMultiStatements
		o.Labels = append(o.Labels, "multi_statement_session")
	}
	conn, err := px.Dial(user, "pw", "db", caps)
	if err != nil {
		o.Skip = "dial: " + err.Error()
		return
	}
	defer conn.Close()
	ns := px.Manager.GetNamespace(name)
	if ns == nil {
		o.Skip = "namespace not installed"
		return
	}
	seen := 0
	var firstKnown, firstKnownWhat string
	for i, v := range c.Variants {
		target := c.Base
		mutant := v.Target != nil
		if mutant {
			target = *v.Target
		}
		text := apply(target, v.Edits, nil)
		var allowedByFunction bool
		if p := pbt.Catch(func() { allowedByFunction = ns.IsSQLAllowed(util.NewRequestContext(), text) }); p != "" {
			o.Violation = fmt.Sprintf("variant %d: IsSQLAllowed(%q) panicked: %s", i, text, p)
			return
		}
		kind := "equivalent"
		if mutant {
			kind = "mutant"
		}
		o.Labels = append(o.Labels, kind+"_"+v.Mode)
		if allowedByFunction != mutant {
			// the function level already disagrees with the property: classify exactly as the function-level sub-checks do
			fo := checkCase(sqlCase{Base: c.Base, Target: v.Target, Mut: v.Mut, Edits: v.Edits})
			if fo.Violation != "" {
				o.Violation = fmt.Sprintf("variant %d: %s", i, fo.Violation)
				return
			}
			if fo.Known != "" && firstKnown == "" {
				firstKnown, firstKnownWhat = fo.Known, fmt.Sprintf("variant %d: %s", i, fo.KnownWhat)
			}
			o.Labels = append(o.Labels, "function_level_known_"+fo.Known)
			continue
		}
		// live
		_, seen = master.EventsSince(seen)
		var res *rawclient.Result
		sent := text
		switch v.Mode {
		case "query":
			rs, qerr := conn.Query(text)
			if qerr != nil || len(rs) == 0 {
				o.Skip = fmt.Sprintf("client i/o error: %v", qerr)
				return
			}
			res = rs[len(rs)-1]
		case "second":
			sent = prefixStmt + ";" + text
			rs, qerr := conn.Query(sent)
			if qerr != nil || len(rs) == 0 {
				o.Skip = fmt.Sprintf("client i/o error: %v", qerr)
				return
			}
			res = rs[len(rs)-1]
			if len(rs) < 2 && res.Err == nil {
				o.Labels = append(o.Labels, "second_statement_not_answered")
			}
		case "prepared":
			st, perr, ioerr := conn.Prepare(text)
			if ioerr != nil {
				o.Skip = fmt.Sprintf("client i/o error: %v", ioerr)
				return
			}
			if perr != nil {
				res = &rawclient.Result{Err: perr}
			} else {
				r, xerr := conn.Execute(st, nil)
				if xerr != nil {
					o.Skip = fmt.Sprintf("client i/o error: %v", xerr)
					return
				}
				res = r
				conn.StmtClose(st.ID)
			}
		}
		var evs []fakemysql.Event
		evs, seen = master.EventsSince(seen)
		reached, reachedSQL := reachedBackend(evs)
		o.NonTrivial = true
		if !mutant {
			// rejected by the function level: must be refused on the wire and must not be executed
			if res.Err == nil || reached {
				detail := fmt.Sprintf("blacklisted %q; equivalent variant sent as %s %q: IsSQLAllowed rejects it, but the live proxy answered err=%v and the backend received %q",
					baseText, v.Mode, sent, res.Err, reachedSQL)
				// (C36-F10, the packet fingerprint used for every piece of a multi-statement packet, was
				// repaired in /repo; a recurrence is a plain violation)
				o.Violation = detail
				return
			}
			if !isBlacklistErr(res.Err) {
				o.Labels = append(o.Labels, "equivalent_refused_with_other_error")
			}
			continue
		}
		if isBlacklistErr(res.Err) {
			o.Violation = fmt.Sprintf("blacklisted %q; structurally different statement (%s) sent as %s %q: IsSQLAllowed allows it, but the live proxy answered %v", baseText, v.Mut, v.Mode, sent, res.Err)
			return
		}
		if res.Err != nil {
			o.Labels = append(o.Labels, "mutant_other_error")
			continue
		}
		if !reached {
			o.Violation = fmt.Sprintf("blacklisted %q; structurally different statement (%s) sent as %s %q was answered OK but no statement reached the backend", baseText, v.Mut, v.Mode, sent)
			return
		}
	}
	if firstKnown != "" {
		o.Known, o.KnownWhat = firstKnown, firstKnownWhat
	}
	return
}

func TestC36Live(t *testing.T) {
	pbt.Run(t, pbt.Spec{ID: "C36", Sub: "live", Quick: 70, Thorough: 400,
		Rule:  "per case: a fresh namespace on the shared live proxy whose black_sql is the base statement (a quarter of the cases with multi-statement support), a fresh simulated backend and a fresh client session; 3-6 statements per case, two thirds equivalent variants (edits as in the equivalent sub-check, including comments before, inside and after the statement) and one third structural mutants, each sent as COM_QUERY, as prepare+execute without parameters, or as the second statement of a multi-statement packet; anchored on the installed namespace's own IsSQLAllowed answer: rejected => error on the wire and nothing at the backend, allowed => never 'sql in blacklist' and, if answered OK, received by the backend; function-level mismatches are classified as in the other sub-checks; non-trivial = at least one statement was judged on the wire",
		Floor: 0.7}, genLive, checkLive)
}
