//go:build verif

// C27 Fused replicas are not restored before their cool-down.
//
// Histories of breaker events (Slice.TryFuse, or a failing ConnPool.Get under
// GetSlaveConn), health-check rounds (Slice.TryRecover with scripted probes) and
// clock advances run against the real backend code under the injectable clock
// (backend.VerifSetClock); internal/healthfix holds the interpreter and the
// reference.
//
//	hard     exact model: a replica the breaker took down at t_f (latest trigger)
//	         is not up after any round at t < t_f + cooldown, and is up after the
//	         first round at t >= t_f + cooldown whose probe passes with the master
//	         up and replication healthy.
//	gradual  invariants that do not copy the penalty formula: a failed probe never
//	         marks the replica up; a run of successful rounds that did not suffice
//	         is shorter than the one that did (the count restarts on failure); a
//	         fuse soon (< 2 ping periods) after a recovery needs more successful
//	         rounds than that recovery did (until the cap) and never zero; a fuse
//	         long after the previous recovery is back at the base requirement; 121
//	         consecutive successful rounds always suffice.
//
// Both sub-checks drive a group of 1-3 replicas whose fuse / recovery strategies
// are installed by the real DBInfo.InitFuseRecoveryPolicy, with the replicas'
// fuse events and probe rounds interleaved; the reference keeps independent state
// per replica, and a step on one replica must never change another one.
package c27

import (
	"fmt"
	"testing"

	"github.com/XiaoMi/Gaea/log"
	"pgregory.net/rapid"
	"verifharness/internal/fakepool"
	hf "verifharness/internal/healthfix"
	"verifharness/internal/pbt"
)

func init() { log.SetGlobalLogger(fakepool.NullLogger{}) }

type histCase struct {
	Cfg hf.Config `json:"cfg"`
	Ops []hf.Op   `json:"ops"`
}

func genBase(t *rapid.T, policy string) hf.Config {
	c := hf.Config{Policy: policy}
	c.FuseWindow = int64(rapid.IntRange(1, 8).Draw(t, "fuse_window"))
	c.FuseMinErr = int64(rapid.SampledFrom([]int{1, 1, 2, 3}).Draw(t, "fuse_min_err"))
	c.DownAfter = rapid.SampledFrom([]int{4, 8, 16, 32, 32, 64}).Draw(t, "down_after")
	c.SBM = rapid.SampledFrom([]int{0, 10, 30, 30}).Draw(t, "sbm")
	c.HealthSQL = rapid.Bool().Draw(t, "health_sql")
	return c
}

func genFailProbe(t *rapid.T, cfg hf.Config) hf.Probe {
	switch rapid.IntRange(0, 4).Draw(t, "fail_kind") {
	case 0:
		return hf.Probe{GetCheck: "err"}
	case 1:
		if cfg.HealthSQL {
			return hf.Probe{Health: rapid.SampledFrom([]string{"shutdown", "ts_missing", "ts_discarded", "timeout"}).Draw(t, "health")}
		}
		return hf.Probe{PingFail: 5}
	case 2:
		p := hf.Probe{PingFail: rapid.IntRange(1, 5).Draw(t, "ping_fail")}
		if cfg.HealthSQL {
			p.Health = "soft"
		}
		return p
	default:
		p := hf.Probe{SelFail: rapid.IntRange(1, 5).Draw(t, "sel_fail")}
		if cfg.HealthSQL {
			p.Health = "soft"
		}
		return p
	}
}

func genPassProbe(t *rapid.T, cfg hf.Config) hf.Probe {
	if cfg.HealthSQL {
		switch rapid.IntRange(0, 5).Draw(t, "pass_kind") {
		case 0:
			return hf.Probe{Health: "soft"} // ordinary error of the health statement, ping and select 1 fine
		case 1:
			return hf.Probe{Health: "soft1ok", PingFail: rapid.SampledFrom([]int{0, 2, 3, 4}).Draw(t, "late_ping_fail")}
		case 2:
			return hf.Probe{PingFail: rapid.IntRange(0, 5).Draw(t, "ignored_ping_fail")} // health statement succeeds first: ping never consulted
		}
	}
	return hf.Probe{}
}

func genBadRepl(t *rapid.T, cfg hf.Config) hf.Repl {
	switch rapid.IntRange(0, 3).Draw(t, "bad_repl") {
	case 0:
		return hf.Repl{Lag: int64(cfg.SBM + rapid.IntRange(1, 500).Draw(t, "over"))}
	case 1:
		return hf.Repl{Lag: -1, IO: rapid.SampledFrom([]string{"No", "Connecting"}).Draw(t, "io")}
	case 2:
		return hf.Repl{Lag: 0, SQL: "No"}
	}
	return hf.Repl{Kind: "error"}
}

func genGoodRepl(t *rapid.T, cfg hf.Config) hf.Repl {
	switch rapid.IntRange(0, 5).Draw(t, "good_repl") {
	case 0:
		return hf.Repl{Kind: "empty"}
	case 1:
		return hf.Repl{Kind: "noprivilege"}
	case 2:
		return hf.Repl{Lag: int64(cfg.SBM)}
	}
	return hf.Repl{Lag: int64(rapid.IntRange(0, max(cfg.SBM, 1)).Draw(t, "lag"))}
}

// ---- hard policy ----

// genReplicas draws the size of the replica group; all strategies of the group
// are installed by one DBInfo.InitFuseRecoveryPolicy call.
func genReplicas(t *rapid.T) int {
	return rapid.SampledFrom([]int{1, 2, 2, 2, 3, 3}).Draw(t, "replicas")
}

// interleave merges the per-replica streams into one history, keeping the order
// inside each stream. Ops of replicas other than the first mostly happen at the
// same instant as the previous op (one health tick probes all replicas).
func interleave(t *rapid.T, streams [][]hf.Op) []hf.Op {
	var out []hf.Op
	idx := make([]int, len(streams))
	for {
		var live []int
		for i := range streams {
			if idx[i] < len(streams[i]) {
				live = append(live, i)
			}
		}
		if len(live) == 0 {
			return out
		}
		i := live[0]
		if len(live) > 1 {
			i = live[rapid.IntRange(0, len(live)-1).Draw(t, "next_stream")]
		}
		op := streams[i][idx[i]]
		idx[i]++
		op.Node = i
		if i > 0 && op.K != "adv" && rapid.IntRange(0, 2).Draw(t, "same_tick") != 0 {
			op.Dt = 0
		}
		out = append(out, op)
	}
}

func genHardStream(t *rapid.T, cfg hf.Config, blocks int) []hf.Op {
	var ops []hf.Op
	cd := int(cfg.Cooldown)
	for b := 0; b < blocks; b++ {
		// quiet time, then the errors that trip the breaker
		ops = append(ops, hf.Op{K: "adv", Dt: int64(rapid.IntRange(0, 20).Draw(t, "quiet"))})
		via := rapid.SampledFrom([]string{"", "", "getconn"}).Draw(t, "via")
		ops = append(ops, hf.Op{K: "fuse", Err: "conn", Via: via, N: int(cfg.FuseMinErr)})
		if rapid.IntRange(0, 5).Draw(t, "noise_err") == 0 {
			ops = append(ops, hf.Op{K: "fuse", Err: rapid.SampledFrom([]string{"sql", "generic", "nil"}).Draw(t, "noise_kind"), N: 2})
		}
		segs := rapid.IntRange(1, 5).Draw(t, "segments")
		for s := 0; s < segs; s++ {
			switch rapid.IntRange(0, 11).Draw(t, "seg") {
			case 0: // a failing probe inside the cool-down
				ops = append(ops, hf.Op{K: "round", Dt: 4, N: rapid.IntRange(1, 2).Draw(t, "n"), Probe: genFailProbe(t, cfg)})
			case 1: // master not up
				ops = append(ops, hf.Op{K: "round", Dt: 4, Master: rapid.SampledFrom([]string{"down", "down", "missing"}).Draw(t, "master"),
					Probe: rapid.SampledFrom([]hf.Probe{{}, {}, {GetCheck: "err"}}).Draw(t, "mprobe")})
			case 2: // replication unhealthy
				ops = append(ops, hf.Op{K: "round", Dt: 4, Probe: genPassProbe(t, cfg), Repl: genBadRepl(t, cfg)})
			case 3: // the breaker trips again while the replica is down (two sessions had picked it)
				ops = append(ops, hf.Op{K: "fuse", Err: "conn", Dt: int64(rapid.IntRange(0, 3).Draw(t, "refuse_dt")), N: int(cfg.FuseMinErr)})
			case 4, 10, 11: // jump to just before the end of the cool-down, then second by second
				ops = append(ops, hf.Op{K: "adv", Dt: int64(max(0, cd-rapid.IntRange(0, 6).Draw(t, "before_end")))})
				ops = append(ops, hf.Op{K: "round", Dt: 1, N: rapid.IntRange(2, 8).Draw(t, "n1"), Probe: genPassProbe(t, cfg), Repl: genGoodRepl(t, cfg)})
			default: // ordinary successful rounds at the ping period
				ops = append(ops, hf.Op{K: "round", Dt: rapid.SampledFrom([]int64{4, 4, 4, 1, 0, 5}).Draw(t, "dt"), N: rapid.IntRange(1, 6).Draw(t, "n"),
					Probe: genPassProbe(t, cfg), Repl: genGoodRepl(t, cfg)})
			}
		}
		if rapid.IntRange(0, 4).Draw(t, "finish") != 0 {
			ops = append(ops, hf.Op{K: "round", Dt: rapid.SampledFrom([]int64{4, 4, 1, 2}).Draw(t, "finish_dt"), N: cd + 3, UntilUp: true, Repl: genGoodRepl(t, cfg)})
		}
	}
	return ops
}

func genHard(t *rapid.T) histCase {
	c := histCase{Cfg: genBase(t, "hard")}
	c.Cfg.Cooldown = int64(rapid.SampledFrom([]int{1, 2, 3, 4, 5, 6, 8, 9, 12, 15, 20, 30, 60, 119, 120}).Draw(t, "cooldown"))
	c.Cfg.Replicas = genReplicas(t)
	var streams [][]hf.Op
	for i := 0; i < c.Cfg.Replicas; i++ {
		blocks := rapid.IntRange(1, 4).Draw(t, "blocks")
		if i > 0 {
			blocks = rapid.IntRange(1, 3).Draw(t, "blocks_other")
		}
		streams = append(streams, genHardStream(t, c.Cfg, blocks))
	}
	c.Ops = interleave(t, streams)
	return c
}

func labelSet(o *pbt.Outcome) func(string) {
	seen := map[string]bool{}
	return func(l string) {
		if !seen[l] {
			seen[l] = true
			o.Labels = append(o.Labels, l)
		}
	}
}

// groupLabels labels the size of the replica group and whether two replicas of
// the group were down by the breaker at the same time (the situation in which
// shared recovery state would show).
func groupLabels(c histCase, tr hf.Trace, label func(string)) {
	label(fmt.Sprintf("replicas_%d", max(1, c.Cfg.Replicas)))
	fused := map[int]bool{}
	for _, st := range tr.Steps {
		fused[st.Node] = !st.After && (st.FusedDown || (st.Before && st.Cat == "fuse_trigger"))
		n := 0
		for _, f := range fused {
			if f {
				n++
			}
		}
		if n >= 2 {
			label("two_replicas_fused_at_once")
			if st.Kind == "round" && st.FullPass {
				label("passing_round_while_two_replicas_fused")
			}
		}
	}
}

func checkHard(c histCase) (o pbt.Outcome) {
	if c.Cfg.Policy != "hard" || c.Cfg.Cooldown <= 0 {
		o.Skip = "not a hard-policy case"
		return
	}
	tr := hf.Run(c.Cfg, c.Ops)
	if tr.Panic != "" {
		o.Violation = "runtime panic: " + tr.Panic
		return
	}
	if len(tr.Other) > 0 {
		o.Violation = tr.Other[0]
		return
	}
	label := labelSet(&o)
	groupLabels(c, tr, label)
	early, late := false, false
	for _, st := range tr.Steps {
		if st.Kind != "round" {
			if st.Deviates() {
				label("breaker_step_differs_from_reference(C26):" + st.Cat)
			}
			continue
		}
		if st.FusedDown && st.FullPass {
			if st.GateHolds {
				late = true
			} else {
				early = true
			}
		}
		if st.FusedDown && !st.GateHolds {
			label("round_inside_cooldown:" + st.Cat)
		}
		switch {
		case st.FusedDown && !st.GateHolds && st.After:
			o.Violation = "hard policy, cool-down " + fmt.Sprint(c.Cfg.Cooldown) + "s: replica marked up before the cool-down since its latest fuse was over: " + st.String()
			return
		case st.Cat == "hard_recover" && !st.After:
			o.Violation = "hard policy: cool-down over, probe passed, master up, replication healthy, yet the replica stays down: " + st.String()
			return
		case st.Deviates():
			label("other_rule_deviation(C28):" + st.Cat)
		}
	}
	o.NonTrivial = early && late
	return
}

func TestC27Hard(t *testing.T) {
	pbt.Run(t, pbt.Spec{ID: "C27", Sub: "hard", Quick: 20000, Thorough: 120000,
		Rule: "hard policy, cool-down 1-120 s, breaker window 1-8 s / threshold 1-3; a group of 1-3 replicas whose strategies are installed by one DBInfo.InitFuseRecoveryPolicy call, each with its own stream (randomly interleaved, reference state independent per replica) of 1-4 blocks of [quiet time, errors that trip the breaker (TryFuse or failing Get), segments of rounds: passing at 4 s / 1 s steps across the end of the cool-down, failing probes, master down/missing, unhealthy replication, re-trip while down]; non-trivial = a fully passing round on the fused replica both before and after the cool-down ended",
		Floor: 0.5}, genHard, checkHard)
}

// ---- gradual policy ----

func genGradualStream(t *rapid.T, cfg hf.Config, mode, blocks int) []hf.Op {
	var ops []hf.Op
	for b := 0; b < blocks; b++ {
		soon := rapid.IntRange(0, 3).Draw(t, "soon") != 0
		if mode == 0 {
			soon = rapid.IntRange(0, 19).Draw(t, "soon0") != 0
		}
		gap := int64(rapid.IntRange(0, 7).Draw(t, "gap_short"))
		if !soon {
			gap = int64(rapid.SampledFrom([]int{9, 10, 12, 30, 100, 300}).Draw(t, "gap_long"))
		}
		if rapid.IntRange(0, 14).Draw(t, "gap_edge") == 0 {
			gap = 8
		}
		ops = append(ops, hf.Op{K: "fuse", Err: "conn", Dt: gap, N: int(cfg.FuseMinErr),
			Via: rapid.SampledFrom([]string{"", "", "getconn"}).Draw(t, "via")})
		segs := rapid.IntRange(0, 3).Draw(t, "segments")
		for s := 0; s < segs; s++ {
			switch rapid.IntRange(0, 7).Draw(t, "seg") {
			case 0, 1, 2: // a run of successful rounds that may or may not suffice
				ops = append(ops, hf.Op{K: "round", Dt: 4, N: rapid.IntRange(1, 25).Draw(t, "run"), UntilUp: true,
					Probe: genPassProbe(t, cfg), Repl: genGoodRepl(t, cfg)})
			case 3, 4: // failed probe(s): the count restarts
				ops = append(ops, hf.Op{K: "round", Dt: 4, N: rapid.IntRange(1, 2).Draw(t, "nfail"), Probe: genFailProbe(t, cfg)})
			case 5: // master not up
				ops = append(ops, hf.Op{K: "round", Dt: 4, Master: "down", Probe: rapid.SampledFrom([]hf.Probe{{}, {GetCheck: "err"}}).Draw(t, "mprobe")})
			case 6: // replication unhealthy
				ops = append(ops, hf.Op{K: "round", Dt: 4, Probe: genPassProbe(t, cfg), Repl: genBadRepl(t, cfg)})
			default: // breaker trips again while down
				ops = append(ops, hf.Op{K: "fuse", Err: "conn", N: int(cfg.FuseMinErr)})
			}
		}
		if rapid.IntRange(0, 7).Draw(t, "finish") != 0 {
			// split the finishing run so that other replicas' ops can fall in between
			ops = append(ops, hf.Op{K: "round", Dt: 4, N: rapid.IntRange(1, 12).Draw(t, "finish_head"), UntilUp: true, Repl: genGoodRepl(t, cfg)})
			ops = append(ops, hf.Op{K: "round", Dt: 4, N: 125, UntilUp: true, Repl: genGoodRepl(t, cfg)})
		}
	}
	return ops
}

func genGradual(t *rapid.T) histCase {
	c := histCase{Cfg: genBase(t, "gradual")}
	c.Cfg.DownAfter = rapid.SampledFrom([]int{8, 16, 32, 64}).Draw(t, "down_after_g")
	c.Cfg.Replicas = genReplicas(t)
	mode := rapid.IntRange(0, 3).Draw(t, "mode") // 0: mostly fuses soon after recovery (penalty ladder up to the cap)
	var streams [][]hf.Op
	for i := 0; i < c.Cfg.Replicas; i++ {
		blocks := rapid.IntRange(2, 9).Draw(t, "blocks")
		if mode == 0 && i == 0 {
			blocks = rapid.IntRange(4, 15).Draw(t, "blocks_ladder")
		}
		if i > 0 {
			blocks = rapid.IntRange(1, 5).Draw(t, "blocks_other")
		}
		streams = append(streams, genGradualStream(t, c.Cfg, mode, blocks))
	}
	c.Ops = interleave(t, streams)
	return c
}

func checkGradual(c histCase) (o pbt.Outcome) {
	if c.Cfg.Policy != "gradual" {
		o.Skip = "not a gradual-policy case"
		return
	}
	tr := hf.Run(c.Cfg, c.Ops)
	if tr.Panic != "" {
		o.Violation = "runtime panic: " + tr.Panic
		return
	}
	if len(tr.Other) > 0 {
		o.Violation = tr.Other[0]
		return
	}
	label := labelSet(&o)
	groupLabels(c, tr, label)
	for _, st := range tr.Steps {
		if st.Kind != "round" {
			if st.Deviates() {
				label("breaker_step_differs_from_reference(C26):" + st.Cat)
			}
			continue
		}
		if st.FusedDown && !st.ProbePass && st.After {
			o.Violation = "gradual policy: a round whose probe failed marked the fused replica up: " + st.String()
			return
		}
		if st.Deviates() {
			label("other_rule_deviation(C28):" + st.Cat)
		}
	}
	if len(tr.Issues) > 0 {
		is := tr.Issues[0]
		o.Violation = fmt.Sprintf("gradual policy [%s]: %s (episodes: %s)", is.Cat, is.Detail, episodes(tr))
		return
	}
	measured, penalised, maxR := 0, 0, 0
	for _, ep := range tr.Episodes {
		if ep.Recovered && !ep.Tainted {
			measured++
			if ep.R >= 2 {
				penalised++
			}
			if ep.R > maxR {
				maxR = ep.R
			}
			switch {
			case ep.Gap >= 0 && ep.Gap < 8 && ep.PrevFuse:
				label("episode_soon_after_fuse_recovery")
			case ep.Gap >= 0 && ep.Gap < 8:
				label("episode_soon_after_plain_recovery")
			case ep.Gap > 8 && !ep.Interrupted:
				label("episode_long_gap_clean")
			case ep.Gap > 8:
				label("episode_long_gap_interrupted")
			}
			if ep.MaxPrior > 0 {
				label("episode_with_insufficient_run")
			}
		} else if ep.Tainted {
			label("episode_tainted_by_neutral_round")
		}
	}
	switch {
	case maxR >= 121:
		label("requirement_at_cap_121")
	case maxR >= 40:
		label("requirement_40_plus")
	case maxR >= 12:
		label("requirement_12_plus")
	}
	o.NonTrivial = measured >= 2 && penalised >= 1
	return
}

func episodes(tr hf.Trace) string {
	s := ""
	for _, ep := range tr.Episodes {
		s += fmt.Sprintf("[replica %d fuse+%ds gap=%d R=%d maxprior=%d interrupted=%v tainted=%v recovered=%v] ", ep.Node, ep.FuseT-hf.T0, ep.Gap, ep.R, ep.MaxPrior, ep.Interrupted, ep.Tainted, ep.Recovered)
	}
	return s
}

func TestC27Gradual(t *testing.T) {
	pbt.Run(t, pbt.Spec{ID: "C27", Sub: "gradual", Quick: 8000, Thorough: 50000,
		Rule: "gradual policy; a group of 1-3 replicas (strategies from one DBInfo.InitFuseRecoveryPolicy call, streams randomly interleaved, invariants per replica); per replica 1-15 breaker episodes, each fused 0-7 s (soon), 8 s (edge, not judged) or 9-300 s after the previous recovery, followed by runs of 1-25 passing rounds, failing probes, master-down and unhealthy-replication rounds, re-trips, and usually a run of up to 125 passing rounds that ends at the recovery; non-trivial = at least two measured episodes of which one needed two or more successful rounds",
		Floor: 0.5}, genGradual, checkGradual)
}
