//go:build verif

// C13 Prepared-statement results carry the same values as the backend's text results.
//
// A text-protocol row, as a MySQL backend prints it, goes through the code path
// of COM_STMT_EXECUTE (RowData.ParseText -> BuildBinaryResultset, what
// Session.writeResponse does for IsBinary responses). The binary row is decoded
// by the independent decoder in bindec_test.go and every column is compared
// with the value the text denotes, parsed here with math/big and hand-written
// temporal parsers (never with Gaea code).
package c13

import (
	"bytes"
	"fmt"
	"math"
	"math/big"
	"regexp"
	"strconv"
	"strings"
	"testing"

	"github.com/XiaoMi/Gaea/mysql"
	"pgregory.net/rapid"
	"verifharness/internal/pbt"
)

type colCase struct {
	Type uint8  `json:"type"`
	Flag uint16 `json:"flag"`
	Dec  uint8  `json:"dec"`
	Null bool   `json:"null"`
	Text []byte `json:"text"` // the column as the backend prints it in the text protocol
}

type rowCase struct {
	Cols []colCase `json:"cols"`
}

// ---------------------------------------------------------------------------
// generators: values as MySQL prints them
// ---------------------------------------------------------------------------

func genIntCol(t *rapid.T) colCase {
	tp := rapid.SampledFrom([]uint8{tTiny, tShort, tInt24, tLong, tLonglong, tYear}).Draw(t, "int_type")
	bits := map[uint8]uint{tTiny: 8, tShort: 16, tInt24: 24, tLong: 32, tLonglong: 64}[tp]
	c := colCase{Type: tp}
	if tp == tYear {
		c.Flag = flagUnsigned | flagZerofill
		y := rapid.SampledFrom([]int{0, 1901, 1970, 2000, 2024, 2155}).Draw(t, "year")
		if rapid.Bool().Draw(t, "year_any") {
			y = rapid.IntRange(1901, 2155).Draw(t, "year_v")
		}
		c.Text = []byte(fmt.Sprintf("%04d", y))
		return c
	}
	uns := rapid.Bool().Draw(t, "unsigned")
	var v big.Int
	if uns {
		c.Flag = flagUnsigned
		max := new(big.Int).Sub(new(big.Int).Lsh(big.NewInt(1), bits), big.NewInt(1))
		switch rapid.IntRange(0, 5).Draw(t, "uk") {
		case 0:
			v.Set(max)
		case 1:
			v.Sub(max, big.NewInt(1))
		case 2:
			// just above the signed maximum of this width
			v.Add(new(big.Int).Lsh(big.NewInt(1), bits-1), big.NewInt(int64(rapid.IntRange(-1, 1).Draw(t, "ud"))))
		case 3:
			v.SetInt64(int64(rapid.IntRange(0, 2).Draw(t, "usmall")))
		default:
			v.SetUint64(rapid.Uint64().Draw(t, "uv"))
			v.And(&v, max)
		}
		c.Text = []byte(v.String())
		if rapid.IntRange(0, 4).Draw(t, "zerofill") == 0 {
			c.Flag |= flagZerofill
			w := map[uint8]int{tTiny: 3, tShort: 5, tInt24: 8, tLong: 10, tLonglong: 20}[tp]
			for len(c.Text) < w {
				c.Text = append([]byte{'0'}, c.Text...)
			}
		}
		return c
	}
	min := new(big.Int).Neg(new(big.Int).Lsh(big.NewInt(1), bits-1))
	max := new(big.Int).Sub(new(big.Int).Lsh(big.NewInt(1), bits-1), big.NewInt(1))
	switch rapid.IntRange(0, 5).Draw(t, "sk") {
	case 0:
		v.Set(min)
	case 1:
		v.Set(max)
	case 2:
		v.Add(min, big.NewInt(1))
	case 3:
		v.SetInt64(int64(rapid.IntRange(-2, 2).Draw(t, "ssmall")))
	default:
		x := rapid.Int64().Draw(t, "sv")
		v.SetInt64(x >> (64 - bits))
	}
	c.Text = []byte(v.String())
	return c
}

func genFloatCol(t *rapid.T) colCase {
	c := colCase{Type: tFloat, Dec: 31}
	var f float32
	switch rapid.IntRange(0, 4).Draw(t, "fk") {
	case 0:
		f = rapid.SampledFrom([]float32{0, 1, -1, 0.1, 1.5, 3.4028235e38, -3.4028235e38, 1.1754944e-38, 1e-45, 16777216, 16777217, 0.3, 123456.79}).Draw(t, "f_edge")
	default:
		for {
			f = math.Float32frombits(rapid.Uint32().Draw(t, "f_bits"))
			if !math.IsNaN(float64(f)) && !math.IsInf(float64(f), 0) {
				break
			}
		}
	}
	switch rapid.IntRange(0, 3).Draw(t, "ffmt") {
	case 0: // shortest text that identifies the float32
		c.Text = []byte(strconv.FormatFloat(float64(f), 'g', -1, 32))
	case 1: // six significant digits, what mysqld prints for a FLOAT column
		c.Text = []byte(strconv.FormatFloat(float64(f), 'g', 6, 32))
	case 2:
		c.Text = []byte(strconv.FormatFloat(float64(f), 'e', -1, 32))
	default: // FLOAT(M,D)
		d := rapid.IntRange(0, 6).Draw(t, "fdec")
		c.Dec = uint8(d)
		if math.Abs(float64(f)) < 1e15 {
			c.Text = []byte(strconv.FormatFloat(float64(f), 'f', d, 32))
		} else {
			c.Text = []byte(strconv.FormatFloat(float64(f), 'g', -1, 32))
		}
	}
	return c
}

func genDoubleCol(t *rapid.T) colCase {
	c := colCase{Type: tDouble, Dec: 31}
	var f float64
	switch rapid.IntRange(0, 4).Draw(t, "dk") {
	case 0:
		f = rapid.SampledFrom([]float64{0, 1, -1, 0.1, 1.7976931348623157e308, -1.7976931348623157e308, 2.2250738585072014e-308, 5e-324, 9007199254740993, 0.30000000000000004, 1e22, 1e23}).Draw(t, "d_edge")
	default:
		for {
			f = math.Float64frombits(rapid.Uint64().Draw(t, "d_bits"))
			if !math.IsNaN(f) && !math.IsInf(f, 0) {
				break
			}
		}
	}
	switch rapid.IntRange(0, 2).Draw(t, "dfmt") {
	case 0:
		c.Text = []byte(strconv.FormatFloat(f, 'g', -1, 64))
	case 1:
		c.Text = []byte(strconv.FormatFloat(f, 'e', -1, 64))
	default:
		if math.Abs(f) < 1e15 && math.Abs(f) > 1e-5 {
			c.Text = []byte(strconv.FormatFloat(f, 'f', -1, 64))
		} else {
			c.Text = []byte(strconv.FormatFloat(f, 'g', -1, 64))
		}
	}
	return c
}

func digits(t *rapid.T, n int, label string) string {
	var b strings.Builder
	for i := 0; i < n; i++ {
		b.WriteByte(byte('0' + rapid.IntRange(0, 9).Draw(t, label)))
	}
	return b.String()
}

func genDecimalCol(t *rapid.T) colCase {
	scale := rapid.SampledFrom([]int{0, 0, 1, 2, 2, 4, 10, 18, 30}).Draw(t, "scale")
	if rapid.Bool().Draw(t, "scale_any") {
		scale = rapid.IntRange(0, 30).Draw(t, "scale_v")
	}
	intDigits := rapid.IntRange(1, 65-scale).Draw(t, "int_digits")
	if rapid.IntRange(0, 2).Draw(t, "short_int") > 0 {
		intDigits = rapid.IntRange(1, 6).Draw(t, "int_digits_s")
	}
	ip := strings.TrimLeft(digits(t, intDigits, "ip"), "0")
	if ip == "" {
		ip = "0"
	}
	s := ip
	if scale > 0 {
		fp := digits(t, scale, "fp")
		if rapid.IntRange(0, 3).Draw(t, "trail_zero") == 0 {
			fp = fp[:len(fp)-1] + "0" // trailing zero: printed by MySQL, part of the text
		}
		s += "." + fp
	}
	c := colCase{Type: tNewDecimal, Dec: uint8(scale)}
	if rapid.IntRange(0, 2).Draw(t, "neg") == 0 {
		s = "-" + s
	} else if rapid.IntRange(0, 5).Draw(t, "dec_uns") == 0 {
		c.Flag = flagUnsigned
	}
	c.Text = []byte(s)
	return c
}

var strLens = []int{0, 1, 2, 250, 251, 252, 255, 256, 1000, 65535, 65536}

func genStringCol(t *rapid.T) colCase {
	type tf struct {
		tp   uint8
		flag uint16
	}
	k := rapid.SampledFrom([]tf{
		{tVarchar, 0}, {tVarString, 0}, {tVarString, flagBinary}, {tString, 0}, {tString, flagBinary},
		{tString, flagEnum}, {tString, flagSet}, {tTinyBlob, flagBinary}, {tMediumBlob, flagBinary},
		{tLongBlob, flagBinary}, {tBlob, flagBinary}, {tBlob, 0}, {tBit, flagUnsigned}, {tJSON, flagBinary}, {tGeometry, flagBinary},
	}).Draw(t, "str_type")
	c := colCase{Type: k.tp, Flag: k.flag}
	switch rapid.IntRange(0, 9).Draw(t, "sk") {
	case 0:
		n := rapid.SampledFrom(strLens).Draw(t, "str_len")
		salt := rapid.Byte().Draw(t, "str_salt")
		c.Text = make([]byte, n)
		for i := range c.Text {
			c.Text[i] = byte(i*7) ^ salt
		}
	case 1, 2:
		// texts that look like other types
		c.Text = []byte(rapid.SampledFrom([]string{"NULL", "0", "-1", "2020-01-01", "12:00:00", "1e5", "\xfb", "\x00", "a\x00b", "'", "\\", "中文", "\xff\xfe"}).Draw(t, "str_special"))
	default:
		c.Text = rapid.SliceOfN(rapid.Byte(), 0, 40).Draw(t, "str_bytes")
	}
	if k.tp == tBit {
		c.Text = rapid.SliceOfN(rapid.Byte(), 1, 8).Draw(t, "bit_bytes")
	}
	return c
}

func daysIn(y, m int) int {
	switch m {
	case 4, 6, 9, 11:
		return 30
	case 2:
		if y%4 == 0 && (y%100 != 0 || y%400 == 0) {
			return 29
		}
		return 28
	}
	return 31
}

// genYMD returns a date part; kind 0 valid calendar date, 1 zero date,
// 2 zero month/day (sql_mode without NO_ZERO_IN_DATE), 3 impossible day (ALLOW_INVALID_DATES)
func genYMD(t *rapid.T) (y, m, d int, kind int) {
	kind = rapid.SampledFrom([]int{0, 0, 0, 0, 0, 0, 1, 2, 2, 3}).Draw(t, "date_kind")
	y = rapid.SampledFrom([]int{1, 1000, 1970, 2000, 2024, 9999, 0}).Draw(t, "year")
	if rapid.Bool().Draw(t, "year_any") {
		y = rapid.IntRange(0, 9999).Draw(t, "year_v")
	}
	m = rapid.IntRange(1, 12).Draw(t, "month")
	switch kind {
	case 0:
		d = rapid.IntRange(1, daysIn(y, m)).Draw(t, "day")
		if rapid.IntRange(0, 3).Draw(t, "last_day") == 0 {
			d = daysIn(y, m)
		}
	case 1:
		y, m, d = 0, 0, 0
	case 2:
		switch rapid.IntRange(0, 2).Draw(t, "zero_part") {
		case 0:
			d = 0
		case 1:
			m, d = 0, 0
		default:
			m = 0
			d = rapid.IntRange(1, 28).Draw(t, "day")
		}
	default:
		m = rapid.SampledFrom([]int{2, 4, 6, 9, 11}).Draw(t, "short_month")
		d = 31
		if m == 2 {
			d = rapid.IntRange(30, 31).Draw(t, "feb_day")
		}
	}
	return
}

var dateKindName = []string{"valid", "zero", "zero_in_date", "invalid_day"}

func genDateCol(t *rapid.T) colCase {
	y, m, d, _ := genYMD(t)
	return colCase{Type: tDate, Flag: flagBinary, Text: []byte(fmt.Sprintf("%04d-%02d-%02d", y, m, d))}
}

func fracText(t *rapid.T, dec int) string {
	if dec == 0 {
		return ""
	}
	f := digits(t, dec, "frac")
	if rapid.IntRange(0, 3).Draw(t, "frac_edge") == 0 {
		f = rapid.SampledFrom([]string{"000000", "999999", "000001", "500000", "100000"}).Draw(t, "frac_e")[:dec]
	}
	return "." + f
}

func genDatetimeCol(t *rapid.T) colCase {
	tp := rapid.SampledFrom([]uint8{tDatetime, tTimestamp}).Draw(t, "dt_type")
	y, m, d, kind := genYMD(t)
	dec := rapid.SampledFrom([]int{0, 0, 0, 1, 3, 6, 6}).Draw(t, "dt_dec")
	hh, mi, ss := rapid.IntRange(0, 23).Draw(t, "hh"), rapid.IntRange(0, 59).Draw(t, "mi"), rapid.IntRange(0, 59).Draw(t, "ss")
	if rapid.IntRange(0, 3).Draw(t, "time_edge") == 0 {
		e := rapid.SampledFrom([][3]int{{0, 0, 0}, {23, 59, 59}, {12, 0, 0}}).Draw(t, "hms_e")
		hh, mi, ss = e[0], e[1], e[2]
	}
	c := colCase{Type: tp, Flag: flagBinary, Dec: uint8(dec)}
	if kind == 1 {
		hh, mi, ss = 0, 0, 0
		z := ""
		if dec > 0 {
			z = "." + strings.Repeat("0", dec)
		}
		c.Text = []byte("0000-00-00 00:00:00" + z)
		return c
	}
	c.Text = []byte(fmt.Sprintf("%04d-%02d-%02d %02d:%02d:%02d%s", y, m, d, hh, mi, ss, fracText(t, dec)))
	return c
}

func genTimeCol(t *rapid.T) colCase {
	dec := rapid.SampledFrom([]int{0, 0, 0, 1, 3, 6, 6}).Draw(t, "t_dec")
	h := rapid.IntRange(0, 838).Draw(t, "t_h")
	switch rapid.IntRange(0, 5).Draw(t, "t_hk") {
	case 0:
		h = rapid.SampledFrom([]int{0, 23, 24, 25, 47, 48, 99, 100, 838}).Draw(t, "t_h_edge")
	case 1, 2:
		h = rapid.IntRange(0, 23).Draw(t, "t_h_small")
	}
	mi, ss := rapid.IntRange(0, 59).Draw(t, "t_mi"), rapid.IntRange(0, 59).Draw(t, "t_ss")
	if rapid.IntRange(0, 4).Draw(t, "t_edge") == 0 {
		e := rapid.SampledFrom([][2]int{{0, 0}, {59, 59}}).Draw(t, "t_ms_e")
		mi, ss = e[0], e[1]
	}
	frac := fracText(t, dec)
	neg := rapid.IntRange(0, 2).Draw(t, "t_neg") == 0
	allZero := h == 0 && mi == 0 && ss == 0 && strings.Trim(frac, ".0") == ""
	sign := ""
	if neg && !allZero {
		sign = "-"
	}
	return colCase{Type: tTime, Flag: flagBinary, Dec: uint8(dec), Text: []byte(fmt.Sprintf("%s%02d:%02d:%02d%s", sign, h, mi, ss, frac))}
}

// type codes that exist in the protocol's numbering but that a MySQL server
// never puts into result-set metadata (ENUM/SET are reported as STRING with a
// flag, NEWDATE and the old DECIMAL are internal). Labelled, never judged.
func genInternalCol(t *rapid.T) colCase {
	tp := rapid.SampledFrom([]uint8{tEnum, tSet, tNewDate, tDecimal}).Draw(t, "internal_type")
	c := colCase{Type: tp}
	switch tp {
	case tNewDate:
		c.Text = []byte("2020-01-02")
	case tDecimal:
		c.Text = []byte("12.50")
	default:
		c.Text = []byte(rapid.SampledFrom([]string{"a", "small", "x,y", ""}).Draw(t, "enum_text"))
	}
	return c
}

func genRow(t *rapid.T) rowCase {
	n := rapid.IntRange(1, 8).Draw(t, "ncols")
	if rapid.IntRange(0, 5).Draw(t, "wide") == 0 {
		n = rapid.IntRange(6, 20).Draw(t, "ncols_wide")
	}
	var r rowCase
	for i := 0; i < n; i++ {
		var c colCase
		switch rapid.IntRange(0, 20).Draw(t, "class") {
		case 0, 1, 2, 3:
			c = genIntCol(t)
		case 4:
			c = genFloatCol(t)
		case 5:
			c = genDoubleCol(t)
		case 6, 7:
			c = genDecimalCol(t)
		case 8, 9, 10:
			c = genStringCol(t)
		case 11, 12:
			c = genDateCol(t)
		case 13, 14, 15:
			c = genDatetimeCol(t)
		case 16, 17:
			c = genTimeCol(t)
		case 18:
			c = colCase{Type: tNull, Flag: flagBinary, Null: true}
		case 19:
			c = genIntCol(t)
		default:
			if rapid.IntRange(0, 3).Draw(t, "internal") == 0 {
				c = genInternalCol(t)
			} else {
				c = genStringCol(t)
			}
		}
		if rapid.IntRange(0, 6).Draw(t, "null") == 0 {
			c.Null = true
			c.Text = nil
		}
		r.Cols = append(r.Cols, c)
	}
	return r
}

// ---------------------------------------------------------------------------
// what a text denotes (independent of Gaea)
// ---------------------------------------------------------------------------

var (
	reInt      = regexp.MustCompile(`^-?[0-9]+$`)
	reDecimal  = regexp.MustCompile(`^-?[0-9]+(\.[0-9]+)?$`)
	reDate     = regexp.MustCompile(`^([0-9]{4})-([0-9]{2})-([0-9]{2})$`)
	reDatetime = regexp.MustCompile(`^([0-9]{4})-([0-9]{2})-([0-9]{2}) ([0-9]{2}):([0-9]{2}):([0-9]{2})(?:\.([0-9]{1,6}))?$`)
	reTime     = regexp.MustCompile(`^(-?)([0-9]{2,3}):([0-9]{2}):([0-9]{2})(?:\.([0-9]{1,6}))?$`)
)

func atoi(s string) int { n, _ := strconv.Atoi(s); return n }

func micros(frac string) int {
	if frac == "" {
		return 0
	}
	return atoi(frac + strings.Repeat("0", 6-len(frac)))
}

func typeName(tp uint8) string {
	names := map[uint8]string{tDecimal: "OLDDECIMAL", tTiny: "TINY", tShort: "SHORT", tLong: "LONG", tFloat: "FLOAT", tDouble: "DOUBLE",
		tNull: "NULL", tTimestamp: "TIMESTAMP", tLonglong: "LONGLONG", tInt24: "INT24", tDate: "DATE", tTime: "TIME",
		tDatetime: "DATETIME", tYear: "YEAR", tNewDate: "NEWDATE", tVarchar: "VARCHAR", tBit: "BIT", tJSON: "JSON",
		tNewDecimal: "NEWDECIMAL", tEnum: "RAW_ENUM", tSet: "RAW_SET", tTinyBlob: "TINY_BLOB", tMediumBlob: "MEDIUM_BLOB",
		tLongBlob: "LONG_BLOB", tBlob: "BLOB", tVarString: "VAR_STRING", tString: "STRING", tGeometry: "GEOMETRY"}
	if n, ok := names[tp]; ok {
		return n
	}
	return fmt.Sprintf("type%d", tp)
}

func isInternal(tp uint8) bool { return tp == tEnum || tp == tSet || tp == tNewDate || tp == tDecimal }

// compareCol returns "" when the decoded binary value denotes the text.
func compareCol(c colCase, v binValue) string {
	txt := string(c.Text)
	if c.Null || c.Type == tNull {
		if !v.Null {
			return "text value is NULL, binary value is not"
		}
		return ""
	}
	if v.Null {
		return fmt.Sprintf("text value %q became NULL", txt)
	}
	switch c.Type {
	case tTiny, tShort, tInt24, tLong, tLonglong, tYear:
		if !reInt.MatchString(txt) {
			return "harness: malformed integer text"
		}
		want, _ := new(big.Int).SetString(txt, 10)
		var got big.Int
		if v.Kind == "uint" {
			got.SetUint64(v.U)
		} else {
			got.SetInt64(v.I)
		}
		if want.Cmp(&got) != 0 {
			return fmt.Sprintf("text %s, binary integer %s", txt, got.String())
		}
	case tFloat:
		w64, err := strconv.ParseFloat(txt, 32)
		if err != nil {
			return "harness: malformed float text"
		}
		want := float32(w64)
		if math.Float32bits(want) != math.Float32bits(v.F32) && !(want == 0 && v.F32 == 0) {
			return fmt.Sprintf("text %s is nearest to float32 %v (bits %#x), binary value is %v (bits %#x)", txt, want, math.Float32bits(want), v.F32, math.Float32bits(v.F32))
		}
	case tDouble:
		want, err := strconv.ParseFloat(txt, 64)
		if err != nil {
			return "harness: malformed double text"
		}
		if math.Float64bits(want) != math.Float64bits(v.F64) && !(want == 0 && v.F64 == 0) {
			return fmt.Sprintf("text %s is the double %v, binary value is %v", txt, want, v.F64)
		}
	case tNewDecimal:
		want, ok := new(big.Rat).SetString(txt)
		if !ok || !reDecimal.MatchString(txt) {
			return "harness: malformed decimal text"
		}
		if !reDecimal.Match(v.Bytes) {
			return fmt.Sprintf("text %s, binary decimal %q is not a decimal literal", txt, v.Bytes)
		}
		got, _ := new(big.Rat).SetString(string(v.Bytes))
		if want.Cmp(got) != 0 {
			return fmt.Sprintf("text %s, binary decimal %s", txt, v.Bytes)
		}
	case tDate:
		m := reDate.FindStringSubmatch(txt)
		if m == nil {
			return "harness: malformed date text"
		}
		if v.Year != atoi(m[1]) || v.Month != atoi(m[2]) || v.Day != atoi(m[3]) || v.Hour != 0 || v.Min != 0 || v.Sec != 0 || v.Micro != 0 {
			return fmt.Sprintf("text %s, binary date (length %d) %04d-%02d-%02d %02d:%02d:%02d.%06d", txt, v.Len, v.Year, v.Month, v.Day, v.Hour, v.Min, v.Sec, v.Micro)
		}
	case tDatetime, tTimestamp:
		m := reDatetime.FindStringSubmatch(txt)
		if m == nil {
			return "harness: malformed datetime text"
		}
		if v.Year != atoi(m[1]) || v.Month != atoi(m[2]) || v.Day != atoi(m[3]) || v.Hour != atoi(m[4]) || v.Min != atoi(m[5]) || v.Sec != atoi(m[6]) || v.Micro != micros(m[7]) {
			return fmt.Sprintf("text %s, binary datetime (length %d) %04d-%02d-%02d %02d:%02d:%02d.%06d", txt, v.Len, v.Year, v.Month, v.Day, v.Hour, v.Min, v.Sec, v.Micro)
		}
	case tTime:
		m := reTime.FindStringSubmatch(txt)
		if m == nil {
			return "harness: malformed time text"
		}
		h, mi, s, us := atoi(m[2]), atoi(m[3]), atoi(m[4]), micros(m[5])
		zero := h == 0 && mi == 0 && s == 0 && us == 0
		if v.Hour > 23 || v.Days*24+v.Hour != h || v.Min != mi || v.Sec != s || v.Micro != us || (!zero && v.Neg != (m[1] == "-")) {
			return fmt.Sprintf("text %s, binary time (length %d) neg=%v days=%d %02d:%02d:%02d.%06d", txt, v.Len, v.Neg, v.Days, v.Hour, v.Min, v.Sec, v.Micro)
		}
	default: // strings, blobs, BIT, JSON, GEOMETRY
		if v.Kind != "bytes" || !bytes.Equal(v.Bytes, c.Text) {
			return fmt.Sprintf("text %q (%d bytes), binary string %q (%d bytes)", trunc(c.Text), len(c.Text), trunc(v.Bytes), len(v.Bytes))
		}
	}
	return ""
}

func trunc(b []byte) []byte {
	if len(b) > 40 {
		return append(append([]byte{}, b[:40]...), "..."...)
	}
	return b
}

// textRow builds the text-protocol row packet: NULL is 0xfb, everything else a
// length-encoded string (written here, not with Gaea's encoder).
func textRow(cols []colCase) []byte {
	var row []byte
	for _, c := range cols {
		if c.Null || c.Type == tNull {
			row = append(row, 0xfb)
			continue
		}
		n := len(c.Text)
		switch {
		case n < 251:
			row = append(row, byte(n))
		case n < 1<<16:
			row = append(row, 0xfc, byte(n), byte(n>>8))
		case n < 1<<24:
			row = append(row, 0xfd, byte(n), byte(n>>8), byte(n>>16))
		default:
			row = append(row, 0xfe, byte(n), byte(n>>8), byte(n>>16), byte(n>>24), 0, 0, 0, 0)
		}
		row = append(row, c.Text...)
	}
	return row
}

// isF1 recognises the root cause of C13-F1: a DATE text that Go's time.Parse
// refuses (zero month or day, day beyond the month's end) but that is not the
// zero date, encoded as the zero date (length 0).
func isF1(c colCase, v binValue) bool {
	if c.Type != tDate || c.Null || v.Null || v.Kind != "date" || v.Len != 0 {
		return false
	}
	m := reDate.FindStringSubmatch(string(c.Text))
	if m == nil {
		return false
	}
	y, mo, d := atoi(m[1]), atoi(m[2]), atoi(m[3])
	if y == 0 && mo == 0 && d == 0 {
		return false
	}
	return mo == 0 || d == 0 || mo > 12 || d > daysIn(y, mo)
}

func checkRow(r rowCase) (o pbt.Outcome) {
	n := len(r.Cols)
	if n == 0 {
		o.Skip = "no columns"
		return
	}
	fields := make([]*mysql.Field, n)
	types := make([]uint8, n)
	flags := make([]uint16, n)
	internal := false
	for i, c := range r.Cols {
		fields[i] = &mysql.Field{Name: []byte(fmt.Sprintf("c%d", i)), Type: c.Type, Flag: c.Flag, Decimal: c.Dec, Charset: 33}
		types[i], flags[i] = c.Type, c.Flag
		null := c.Null || c.Type == tNull
		if null {
			if i > 0 {
				o.NonTrivial = true
			}
			if i >= 6 {
				o.Labels = append(o.Labels, "null_in_second_bitmap_byte")
			}
			continue
		}
		switch {
		case isInternal(c.Type):
			internal = true
		case c.Type == tDate || c.Type == tDatetime || c.Type == tTimestamp || c.Type == tTime || c.Type == tNewDecimal:
			o.NonTrivial = true
		case c.Flag&(flagEnum|flagSet) != 0:
			o.NonTrivial = true
		case c.Flag&flagUnsigned != 0 && len(c.Text) > 0 && c.Type != tYear && c.Type != tBit:
			// unsigned value above the signed range of its width
			if v, ok := new(big.Int).SetString(string(c.Text), 10); ok {
				bits := map[uint8]uint{tTiny: 8, tShort: 16, tInt24: 24, tLong: 32, tLonglong: 64}[c.Type]
				if bits > 0 && v.Cmp(new(big.Int).Lsh(big.NewInt(1), bits-1)) >= 0 {
					o.NonTrivial = true
					o.Labels = append(o.Labels, "unsigned_above_signed_max")
				}
			}
		}
	}
	if n > 6 {
		o.Labels = append(o.Labels, "two_byte_null_bitmap")
	}

	row := textRow(r.Cols)
	var values []interface{}
	var rs *mysql.Resultset
	var err error
	stage := "ParseText"
	if p := pbt.Catch(func() {
		values, err = mysql.RowData(row).ParseText(fields)
		if err != nil {
			return
		}
		stage = "BuildBinaryResultset"
		rs, err = mysql.BuildBinaryResultset(fields, [][]interface{}{values})
	}); p != "" {
		o.Violation = fmt.Sprintf("%s: runtime panic: %s", stage, p)
		return
	}
	if err != nil {
		// "or the proxy reports an error": find the column it is about, for the histogram only
		o.Labels = append(o.Labels, "error_reported")
		for _, c := range r.Cols {
			if c.Null {
				continue
			}
			one := []*mysql.Field{{Type: c.Type, Flag: c.Flag, Decimal: c.Dec}}
			if vs, e := mysql.RowData(textRow([]colCase{c})).ParseText(one); e != nil {
				o.Labels = append(o.Labels, "error:"+typeName(c.Type))
			} else if _, e := mysql.BuildBinaryResultset(one, [][]interface{}{vs}); e != nil {
				o.Labels = append(o.Labels, "error:"+typeName(c.Type))
			}
		}
		return
	}
	if len(rs.RowDatas) != 1 {
		o.Violation = fmt.Sprintf("BuildBinaryResultset returned %d rows for one row", len(rs.RowDatas))
		return
	}
	bin := []byte(rs.RowDatas[0])
	vals, derr := decodeBinaryRow(bin, types, flags)
	if derr != nil {
		if internal {
			o.Labels = append(o.Labels, "internal_type_code:undecodable_row")
			return
		}
		o.Violation = fmt.Sprintf("binary row % x for column types %v is not a well-formed binary-protocol row: %v (text row %q)", trunc(bin), typeNames(types), derr, trunc(row))
		return
	}
	known := ""
	for i, c := range r.Cols {
		d := compareCol(c, vals[i])
		if strings.HasPrefix(d, "harness:") {
			o.Skip = d
			return
		}
		if isInternal(c.Type) {
			if d != "" {
				o.Labels = append(o.Labels, "internal_type_code:mismatch")
			} else {
				o.Labels = append(o.Labels, "internal_type_code:ok")
			}
			continue
		}
		if d == "" {
			if !c.Null {
				o.Labels = append(o.Labels, "ok:"+typeName(c.Type))
			}
			continue
		}
		if internal {
			// a never-reported type code elsewhere in the row can shift everything behind it
			o.Labels = append(o.Labels, "internal_type_code:row_mismatch")
			return
		}
		detail := fmt.Sprintf("column %d (%s, flags %#x): %s", i, typeName(c.Type), c.Flag, d)
		if isF1(c, vals[i]) {
			if known == "" {
				known = detail
			}
			continue
		}
		o.Violation = detail
		return
	}
	if known != "" {
		o.Known, o.KnownWhat = "C13-F1", known
	}
	return
}

func typeNames(ts []uint8) []string {
	r := make([]string, len(ts))
	for i, t := range ts {
		r[i] = typeName(t)
	}
	return r
}

func TestC13BinaryRows(t *testing.T) {
	pbt.Run(t, pbt.Spec{ID: "C13", Sub: "rows", Quick: 50000, Thorough: 300000,
		Rule: "rows of 1-20 columns of every type a MySQL backend reports in text results (integers of each width/signedness incl. zerofill and YEAR, FLOAT, DOUBLE, NEWDECIMAL up to 65 digits / scale 30, VARCHAR/VAR_STRING/STRING incl. ENUM and SET flags, BLOB family, BIT, JSON, GEOMETRY, DATE, DATETIME, TIMESTAMP with 0-6 fractional digits, TIME -838..838 h, NULL type) with values as mysqld prints them (extremes, zero dates, zero-in-date, impossible days, arbitrary bytes, lengths at the length-encoding boundaries) and NULL in any position; non-trivial = a temporal, decimal, ENUM/SET or unsigned-above-signed-range column, or a NULL beyond the first column",
		Floor: 0.6}, genRow, checkRow)
}
