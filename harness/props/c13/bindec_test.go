//go:build verif

package c13

// An independent decoder of one binary-protocol resultset row, written from
// the MySQL client/server protocol description ("Binary Protocol Resultset
// Row", "Binary Protocol Value"). It does not call Gaea.

import (
	"encoding/binary"
	"fmt"
	"math"
)

// MySQL column type codes (protocol values).
const (
	tDecimal    = 0
	tTiny       = 1
	tShort      = 2
	tLong       = 3
	tFloat      = 4
	tDouble     = 5
	tNull       = 6
	tTimestamp  = 7
	tLonglong   = 8
	tInt24      = 9
	tDate       = 10
	tTime       = 11
	tDatetime   = 12
	tYear       = 13
	tNewDate    = 14
	tVarchar    = 15
	tBit        = 16
	tJSON       = 245
	tNewDecimal = 246
	tEnum       = 247
	tSet        = 248
	tTinyBlob   = 249
	tMediumBlob = 250
	tLongBlob   = 251
	tBlob       = 252
	tVarString  = 253
	tString     = 254
	tGeometry   = 255
)

const (
	flagUnsigned = 32
	flagZerofill = 64
	flagBinary   = 128
	flagEnum     = 256
	flagSet      = 2048
)

type binValue struct {
	Null  bool
	Kind  string // "int", "uint", "float", "double", "bytes", "date", "time"
	I     int64
	U     uint64
	F32   float32
	F64   float64
	Bytes []byte
	// date / datetime / timestamp
	Year, Month, Day, Hour, Min, Sec, Micro int
	// time
	Neg  bool
	Days int
	Len  int // length byte of a temporal value
}

// lenenc reads a length-encoded integer.
func lenenc(b []byte, pos int) (v uint64, np int, isNull bool, err error) {
	if pos >= len(b) {
		return 0, pos, false, fmt.Errorf("length prefix at %d beyond row end %d", pos, len(b))
	}
	c := b[pos]
	need := 0
	switch {
	case c < 0xfb:
		return uint64(c), pos + 1, false, nil
	case c == 0xfb:
		return 0, pos + 1, true, nil
	case c == 0xfc:
		need = 2
	case c == 0xfd:
		need = 3
	case c == 0xfe:
		need = 8
	default:
		return 0, pos, false, fmt.Errorf("invalid length prefix 0xff at %d", pos)
	}
	if pos+1+need > len(b) {
		return 0, pos, false, fmt.Errorf("truncated %d-byte length at %d", need, pos)
	}
	for i := need; i >= 1; i-- {
		v = v<<8 | uint64(b[pos+i])
	}
	return v, pos + 1 + need, false, nil
}

// decodeBinaryRow decodes a binary resultset row for columns of the given
// types and flags. It fails if the row is not exactly one well-formed row.
func decodeBinaryRow(row []byte, types []uint8, flags []uint16) ([]binValue, error) {
	n := len(types)
	if len(row) < 1 || row[0] != 0x00 {
		return nil, fmt.Errorf("row does not start with the 0x00 packet header")
	}
	bm := (n + 7 + 2) / 8
	if len(row) < 1+bm {
		return nil, fmt.Errorf("row of %d bytes too short for the %d-byte null bitmap", len(row), bm)
	}
	bitmap := row[1 : 1+bm]
	pos := 1 + bm
	out := make([]binValue, n)
	need := func(k int, what string) error {
		if pos+k > len(row) {
			return fmt.Errorf("column truncated: %s needs %d bytes at %d, row has %d", what, k, pos, len(row))
		}
		return nil
	}
	for i := 0; i < n; i++ {
		bit := i + 2
		if bitmap[bit/8]&(1<<(uint(bit)%8)) != 0 {
			out[i].Null = true
			continue
		}
		uns := flags[i]&flagUnsigned != 0
		switch types[i] {
		case tNull:
			return nil, fmt.Errorf("column %d of type NULL is not flagged NULL in the bitmap", i)
		case tTiny:
			if err := need(1, "TINY"); err != nil {
				return nil, err
			}
			if uns {
				out[i] = binValue{Kind: "uint", U: uint64(row[pos])}
			} else {
				out[i] = binValue{Kind: "int", I: int64(int8(row[pos]))}
			}
			pos++
		case tShort, tYear:
			if err := need(2, "SHORT/YEAR"); err != nil {
				return nil, err
			}
			v := binary.LittleEndian.Uint16(row[pos:])
			if uns {
				out[i] = binValue{Kind: "uint", U: uint64(v)}
			} else {
				out[i] = binValue{Kind: "int", I: int64(int16(v))}
			}
			pos += 2
		case tLong, tInt24:
			if err := need(4, "LONG/INT24"); err != nil {
				return nil, err
			}
			v := binary.LittleEndian.Uint32(row[pos:])
			if uns {
				out[i] = binValue{Kind: "uint", U: uint64(v)}
			} else {
				out[i] = binValue{Kind: "int", I: int64(int32(v))}
			}
			pos += 4
		case tLonglong:
			if err := need(8, "LONGLONG"); err != nil {
				return nil, err
			}
			v := binary.LittleEndian.Uint64(row[pos:])
			if uns {
				out[i] = binValue{Kind: "uint", U: v}
			} else {
				out[i] = binValue{Kind: "int", I: int64(v)}
			}
			pos += 8
		case tFloat:
			if err := need(4, "FLOAT"); err != nil {
				return nil, err
			}
			out[i] = binValue{Kind: "float", F32: math.Float32frombits(binary.LittleEndian.Uint32(row[pos:]))}
			pos += 4
		case tDouble:
			if err := need(8, "DOUBLE"); err != nil {
				return nil, err
			}
			out[i] = binValue{Kind: "double", F64: math.Float64frombits(binary.LittleEndian.Uint64(row[pos:]))}
			pos += 8
		case tDecimal, tNewDecimal, tVarchar, tBit, tJSON, tEnum, tSet, tTinyBlob, tMediumBlob, tLongBlob, tBlob,
			tVarString, tString, tGeometry:
			l, np, isNull, err := lenenc(row, pos)
			if err != nil {
				return nil, fmt.Errorf("column %d: %v", i, err)
			}
			if isNull {
				return nil, fmt.Errorf("column %d: 0xfb length prefix inside a binary row", i)
			}
			if l > uint64(len(row)-np) {
				return nil, fmt.Errorf("column %d: string length %d at %d exceeds the %d bytes left", i, l, pos, len(row)-np)
			}
			out[i] = binValue{Kind: "bytes", Bytes: row[np : np+int(l)]}
			pos = np + int(l)
		case tDate, tNewDate, tDatetime, tTimestamp:
			if err := need(1, "temporal length"); err != nil {
				return nil, err
			}
			l := int(row[pos])
			pos++
			if l != 0 && l != 4 && l != 7 && l != 11 {
				return nil, fmt.Errorf("column %d: date/time value with length byte %d (legal: 0, 4, 7, 11)", i, l)
			}
			if err := need(l, "date/time value"); err != nil {
				return nil, err
			}
			v := binValue{Kind: "date", Len: l}
			if l >= 4 {
				v.Year = int(binary.LittleEndian.Uint16(row[pos:]))
				v.Month = int(row[pos+2])
				v.Day = int(row[pos+3])
			}
			if l >= 7 {
				v.Hour, v.Min, v.Sec = int(row[pos+4]), int(row[pos+5]), int(row[pos+6])
			}
			if l == 11 {
				v.Micro = int(binary.LittleEndian.Uint32(row[pos+7:]))
			}
			out[i] = v
			pos += l
		case tTime:
			if err := need(1, "TIME length"); err != nil {
				return nil, err
			}
			l := int(row[pos])
			pos++
			if l != 0 && l != 8 && l != 12 {
				return nil, fmt.Errorf("column %d: TIME value with length byte %d (legal: 0, 8, 12)", i, l)
			}
			if err := need(l, "TIME value"); err != nil {
				return nil, err
			}
			v := binValue{Kind: "time", Len: l}
			if l >= 8 {
				if row[pos] > 1 {
					return nil, fmt.Errorf("column %d: TIME sign byte %d", i, row[pos])
				}
				v.Neg = row[pos] == 1
				v.Days = int(binary.LittleEndian.Uint32(row[pos+1:]))
				v.Hour, v.Min, v.Sec = int(row[pos+5]), int(row[pos+6]), int(row[pos+7])
			}
			if l == 12 {
				v.Micro = int(binary.LittleEndian.Uint32(row[pos+8:]))
			}
			out[i] = v
			pos += l
		default:
			return nil, fmt.Errorf("column %d: type code %d has no binary encoding", i, types[i])
		}
	}
	if pos != len(row) {
		return nil, fmt.Errorf("%d bytes left over after the last column (row %d bytes)", len(row)-pos, len(row))
	}
	return out, nil
}
