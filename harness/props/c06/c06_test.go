//go:build verif

// C06 The fast unsharded path never bypasses sharding.
//
// Differential, observed at the backends of a live proxy: a statement that the
// full SQL analysis (parser + plan.Checker, exactly what plan.BuildPlan asks)
// finds to reference a sharded / linked / global table must never arrive at a
// backend as the unmodified client text, because only the token pre-check
// (SessionExecutor.preBuildUnshardPlan) forwards the client text verbatim.
package c06

import (
	"fmt"
	"strings"
	"testing"

	"github.com/XiaoMi/Gaea/models"
	"github.com/XiaoMi/Gaea/parser"
	"github.com/XiaoMi/Gaea/parser/ast"
	"github.com/XiaoMi/Gaea/proxy/plan"
	"github.com/XiaoMi/Gaea/proxy/router"
	"pgregory.net/rapid"

	"verifharness/internal/fakemysql"
	"verifharness/internal/pbt"
	"verifharness/internal/proxyfix"
	"verifharness/internal/routefix"
)

// ---- vocabulary ----

// tables of logical database "db"; database "db2" has no rules at all
var tables = []string{"t_sh", "t_ln", "t_gl", "t_un", "t_u2", "t_mx"}

func tableSharded(t int) bool { return t == 0 || t == 1 || t == 2 || t == 5 }

func shardRules() []*models.Shard {
	return []*models.Shard{
		{DB: "db", Table: "t_sh", Type: "hash", Key: "id", Locations: []int{2, 2}, Slices: []string{"slice-0", "slice-1"}},
		{DB: "db", Table: "t_ln", Type: "linked", Key: "id", ParentTable: "t_sh"},
		{DB: "db", Table: "t_gl", Type: "global", Locations: []int{1, 1}, Slices: []string{"slice-0", "slice-1"}},
		// configured with capitals: the router stores rule tables in lower case
		{DB: "db", Table: "T_Mx", Type: "mod", Key: "id", Locations: []int{1, 1}, Slices: []string{"slice-0", "slice-1"}},
	}
}

var sessionDBs = []string{"db", "", "db2"}

type tref struct {
	T      int `json:"t"`      // index into tables
	Case   int `json:"case"`   // 0 lower, 1 UPPER, 2 Capitalised
	Schema int `json:"schema"` // 0 none, 1 db, 2 db2, 3 DB
	Quote  int `json:"quote"`  // 0 none, 1 `name`, 2 `schema`.`name`
	Pre    int `json:"pre"`    // what stands between the preceding keyword / comma and the name
	Post   int `json:"post"`   // what follows the name
}

// statement kinds
const (
	kSelect = iota
	kSelectComma
	kSelectJoin
	kSelectLeftJoin
	kSelectSubqFrom
	kSelectSubqWhere
	kSelectUnion
	kDelete
	kDeleteMulti
	kDeleteSubq
	kInsert
	kInsertNoInto
	kInsertSet
	kInsertSelect
	kReplace
	kReplaceNoInto
	kUpdate
	kUpdateAlias
	kUpdateMulti
	kUpdateJoin
	kUpdateSubq
	nKinds
)

var kindNames = []string{"select", "select_comma", "select_join", "select_left_join", "select_subq_from", "select_subq_where", "select_union",
	"delete", "delete_multi", "delete_subq", "insert", "insert_no_into", "insert_set", "insert_select", "replace", "replace_no_into",
	"update", "update_alias", "update_multi", "update_join", "update_subq"}

type stmt struct {
	Kind   int  `json:"kind"`
	A      tref `json:"a"` // table in the position the pre-check looks at
	B      tref `json:"b"` // second table (join partner, subquery, union branch, insert source)
	Glue   bool `json:"glue"`    // parentheses / column list written without a space next to the name
	AsKw   bool `json:"as_kw"`   // alias written with AS
	KwCase int  `json:"kw_case"` // 0 lower, 1 UPPER, 2 Capitalised keywords
	Lead   int  `json:"lead"`
	Trail  int  `json:"trail"`
}

type c06Case struct {
	SessionDB int    `json:"session_db"` // 0 db, 1 none, 2 db2
	Stmts     []stmt `json:"stmts"`
}

var (
	pres   = []string{" ", "\n", "\t", "/*c*/", " /*c*/ ", "  ", "\r\n"}
	posts  = []string{" ", "\n", "/*c*/", " /*c*/ ", "\t"}
	leads  = []string{"", "/* c */ ", "-- c\n", "/*master*/ "}
	trails = []string{"", " /* c */", ";", "\n"}
)

func preIsSpace(i int) bool  { i %= len(pres); return i != 3 && i != 4 }
func postIsSpace(i int) bool { i %= len(posts); return i != 2 && i != 3 }

func hasB(k int) bool {
	switch k {
	case kSelect, kDelete, kInsert, kInsertNoInto, kInsertSet, kReplace, kReplaceNoInto, kUpdate, kUpdateAlias:
		return false
	}
	return true
}
func hasA(k int) bool { return k != kSelectSubqFrom }

// ---- generator ----

func genRef(t *rapid.T, name string) tref {
	return tref{
		T:      rapid.SampledFrom([]int{0, 0, 0, 1, 2, 3, 3, 4, 5}).Draw(t, name+"_t"),
		Case:   rapid.SampledFrom([]int{0, 0, 0, 1, 2}).Draw(t, name+"_case"),
		Schema: rapid.SampledFrom([]int{0, 0, 0, 0, 1, 1, 2, 3}).Draw(t, name+"_schema"),
		Quote:  rapid.SampledFrom([]int{0, 0, 0, 1, 2}).Draw(t, name+"_quote"),
		Pre:    rapid.SampledFrom([]int{0, 0, 0, 0, 1, 2, 3, 4, 5, 6}).Draw(t, name+"_pre"),
		Post:   rapid.SampledFrom([]int{0, 0, 0, 0, 1, 2, 3, 4}).Draw(t, name+"_post"),
	}
}

func genStmt(t *rapid.T) stmt {
	return stmt{
		Kind:   rapid.IntRange(0, nKinds-1).Draw(t, "kind"),
		A:      genRef(t, "a"),
		B:      genRef(t, "b"),
		Glue:   rapid.Bool().Draw(t, "glue"),
		AsKw:   rapid.Bool().Draw(t, "as"),
		KwCase: rapid.SampledFrom([]int{0, 0, 1, 2}).Draw(t, "kwcase"),
		Lead:   rapid.SampledFrom([]int{0, 0, 0, 1, 2, 3}).Draw(t, "lead"),
		Trail:  rapid.SampledFrom([]int{0, 0, 0, 1, 2, 3}).Draw(t, "trail"),
	}
}

func genCase(t *rapid.T) c06Case {
	c := c06Case{SessionDB: rapid.SampledFrom([]int{0, 0, 0, 0, 1, 2}).Draw(t, "sessiondb")}
	n := rapid.IntRange(1, 6).Draw(t, "n")
	for i := 0; i < n; i++ {
		c.Stmts = append(c.Stmts, genStmt(t))
	}
	return c
}

// ---- rendering ----

func (r tref) text() string {
	name := tables[r.T%len(tables)]
	switch r.Case % 3 {
	case 1:
		name = strings.ToUpper(name)
	case 2:
		name = strings.ToUpper(name[:1]) + name[1:]
	}
	schema := []string{"", "db", "db2", "DB"}[r.Schema%4]
	switch r.Quote % 3 {
	case 1:
		name = "`" + name + "`"
	case 2:
		name = "`" + name + "`"
		if schema != "" {
			schema = "`" + schema + "`"
		}
	}
	if schema != "" {
		return schema + "." + name
	}
	return name
}

func (r tref) around() string { return pres[r.Pre%len(pres)] + r.text() + posts[r.Post%len(posts)] }

func tagOf(i int) string { return fmt.Sprintf("c6t%d", i) }

func (s stmt) render(i int) string {
	kw := func(w string) string {
		switch s.KwCase % 3 {
		case 1:
			return strings.ToUpper(w)
		case 2:
			ws := strings.Split(w, " ")
			for k := range ws {
				ws[k] = strings.ToUpper(ws[k][:1]) + ws[k][1:]
			}
			return strings.Join(ws, " ")
		}
		return w
	}
	tag := `"` + tagOf(i) + `"`
	A, B := s.A.around(), s.B.around()
	as := ""
	if s.AsKw {
		as = kw("as") + " "
	}
	op, cp := "( ", " )"
	bInParen := pres[s.B.Pre%len(pres)] + s.B.text() + " )"
	if s.Glue {
		op, cp = "(", ")"
		bInParen = pres[s.B.Pre%len(pres)] + s.B.text() + ")"
	}
	_ = cp
	var b string
	switch s.Kind % nKinds {
	case kSelect:
		b = kw("select") + " " + tag + ", id " + kw("from") + A + kw("where") + " id = 1"
	case kSelectComma:
		b = kw("select") + " " + tag + " " + kw("from") + A + as + "x," + B + as + "y " + kw("where") + " x.id = y.id"
	case kSelectJoin:
		b = kw("select") + " " + tag + " " + kw("from") + A + as + "x " + kw("join") + B + as + "y " + kw("on") + " x.id = y.id"
	case kSelectLeftJoin:
		b = kw("select") + " " + tag + " " + kw("from") + A + as + "x " + kw("left join") + B + as + "y " + kw("on") + " x.id = y.id " + kw("where") + " x.id = 1"
	case kSelectSubqFrom:
		b = kw("select") + " " + tag + " " + kw("from") + " " + op + kw("select") + " id " + kw("from") + bInParen + " " + as + "y"
	case kSelectSubqWhere:
		b = kw("select") + " " + tag + " " + kw("from") + A + kw("where") + " id " + kw("in") + " " + op + kw("select") + " id " + kw("from") + bInParen
	case kSelectUnion:
		b = kw("select") + " " + tag + " " + kw("from") + A + kw("union") + " " + kw("select") + ` "u" ` + kw("from") + B
	case kDelete:
		b = kw("delete from") + A + kw("where") + " c = " + tag
	case kDeleteMulti:
		b = kw("delete") + " x " + kw("from") + A + as + "x," + B + as + "y " + kw("where") + " x.id = y.id " + kw("and") + " x.c = " + tag
	case kDeleteSubq:
		b = kw("delete from") + A + kw("where") + " c = " + tag + " " + kw("and") + " id " + kw("in") + " " + op + kw("select") + " id " + kw("from") + bInParen
	case kInsert, kReplace:
		verb := "insert"
		if s.Kind%nKinds == kReplace {
			verb = "replace"
		}
		a := A
		if s.Glue {
			a = pres[s.A.Pre%len(pres)] + s.A.text()
		}
		b = kw(verb+" into") + a + "(id, c) " + kw("values") + " (1, " + tag + ")"
	case kInsertNoInto, kReplaceNoInto:
		verb := "insert"
		if s.Kind%nKinds == kReplaceNoInto {
			verb = "replace"
		}
		b = kw(verb) + A + "(id, c) " + kw("values") + " (1, " + tag + ")"
	case kInsertSet:
		b = kw("insert into") + A + kw("set") + " id = 1, c = " + tag
	case kInsertSelect:
		b = kw("insert into") + A + "(id, c) " + kw("select") + " id, " + tag + " " + kw("from") + B
	case kUpdate:
		b = kw("update") + A + kw("set") + " c = " + tag + " " + kw("where") + " id = 1"
	case kUpdateAlias:
		b = kw("update") + A + as + "x " + kw("set") + " x.c = " + tag + " " + kw("where") + " x.id = 1"
	case kUpdateMulti:
		b = kw("update") + A + as + "x," + B + as + "y " + kw("set") + " x.c = " + tag + " " + kw("where") + " x.id = y.id"
	case kUpdateJoin:
		b = kw("update") + A + as + "x " + kw("join") + B + as + "y " + kw("on") + " x.id = y.id " + kw("set") + " x.c = " + tag
	case kUpdateSubq:
		b = kw("update") + A + kw("set") + " c = " + tag + " " + kw("where") + " id " + kw("in") + " " + op + kw("select") + " id " + kw("from") + bInParen
	}
	return leads[s.Lead%len(leads)] + strings.TrimRight(b, " \t\r\n") + trails[s.Trail%len(trails)]
}

// ---- oracle: the full SQL analysis ----

// analysis replicates the decision sequence of plan.BuildPlan up to the choice
// between buildShardPlan and CreateUnshardPlan.
func analysis(rt *router.Router, db, sql string) (class string) {
	n, err := parser.New().ParseOneStmt(sql, "", "")
	if err != nil {
		return "unparsed"
	}
	if plan.IsSelectLastInsertIDStmt(n) || plan.IsSetStmt(n) {
		return "special"
	}
	if _, ok := n.(*ast.ExplainStmt); ok {
		return "special"
	}
	ck := plan.NewChecker(db, rt)
	n.Accept(ck)
	if ck.IsDatabaseInvalid() {
		return "nodb"
	}
	if ck.IsShard() {
		return "sharded"
	}
	return "unsharded"
}

// ---- classification of known bypasses (predicates over the case only) ----

// effectiveSharded: does this reference, as written, name a table with a rule
// (schema and table compared without regard to letter case, like the router and the analysis do)?
func (r tref) effectiveSharded(sessionDB string) bool {
	if !tableSharded(r.T % len(tables)) {
		return false
	}
	switch r.Schema % 4 {
	case 0:
		return sessionDB == "db"
	case 1, 3:
		return true
	}
	return false
}

// reasons why the token pre-check cannot see reference A / B although an
// adjacent-token check done right (case-insensitive, on the token next to
// FROM / INTO / before SET) would. Empty = it must see it.
func (s stmt) hiddenA(sessionDB string) []string {
	var why []string
	k := s.Kind % nKinds
	switch k {
	case kInsertNoInto, kReplaceNoInto:
		why = append(why, "C06-F4")
	case kUpdateAlias, kUpdateMulti, kUpdateJoin:
		why = append(why, "C06-F5")
	}
	switch k {
	case kUpdate, kUpdateSubq:
		// the name must be the token right before SET
		if !postIsSpace(s.A.Post) {
			why = append(why, "C06-F3")
		}
	case kUpdateAlias, kUpdateMulti, kUpdateJoin, kInsertNoInto, kReplaceNoInto:
	default:
		// the name must be the token right after FROM / INTO
		if !preIsSpace(s.A.Pre) {
			why = append(why, "C06-F3")
		}
	}
	// the letter case of the table or schema name hides nothing: the classifiers of the fixed
	// C06-F1 / C06-F8 are gone, a bypass through such a name is a violation
	return why
}

func (s stmt) hiddenB(sessionDB string) []string {
	var why []string
	k := s.Kind % nKinds
	switch k {
	case kSelectComma, kSelectJoin, kSelectLeftJoin, kDeleteMulti:
		why = append(why, "C06-F2")
	case kUpdateMulti, kUpdateJoin:
		why = append(why, "C06-F5")
	case kInsertSelect, kUpdateSubq:
		why = append(why, "C06-F6")
	}
	switch k {
	case kSelectSubqFrom, kSelectSubqWhere, kDeleteSubq:
		if s.Glue || !preIsSpace(s.B.Pre) {
			why = append(why, "C06-F3")
		}
	case kSelectUnion:
		if !preIsSpace(s.B.Pre) {
			why = append(why, "C06-F3")
		}
	}
	switch k {
	case kSelectSubqWhere, kSelectUnion, kDeleteSubq:
		// a schema-qualified A switches the database used for every later unqualified name
		if s.A.Schema%4 != 0 && s.B.Schema%4 == 0 && []string{"", "db", "db2", "db"}[s.A.Schema%4] != sessionDB {
			why = append(why, "C06-F7")
		}
	}
	// the letter case of the table or schema name hides nothing: the classifiers of the fixed
	// C06-F1 / C06-F8 are gone, a bypass through such a name is a violation
	return why
}

// classify returns the finding id of a verbatim-forwarded sharded statement, or "" if
// some sharded reference sits where even the token pre-check must have seen it.
func (s stmt) classify(sessionDB string) string {
	k := s.Kind % nKinds
	var all [][]string
	if hasA(k) && s.A.effectiveSharded(sessionDB) {
		all = append(all, s.hiddenA(sessionDB))
	}
	if hasB(k) && s.B.effectiveSharded(sessionDB) {
		all = append(all, s.hiddenB(sessionDB))
	}
	if len(all) == 0 {
		return "" // the generator sees no sharded reference: nothing explains the bypass
	}
	for _, why := range all {
		if len(why) == 0 {
			return ""
		}
	}
	return all[0][0]
}

func (s stmt) canonical() bool {
	k := s.Kind % nKinds
	if k != kSelect && k != kDelete && k != kInsert && k != kUpdate {
		return false
	}
	a := s.A
	return a.Case%3 == 0 && a.Schema%4 == 0 && a.Quote%3 == 0 && a.Pre%len(pres) == 0 && a.Post%len(posts) == 0 &&
		s.KwCase%3 == 0 && s.Lead%len(leads) == 0 && s.Trail%len(trails) == 0 && !s.Glue
}

// ---- the check ----

func checkCase(c c06Case) (o pbt.Outcome) {
	specs := []proxyfix.SliceSpec{{Name: "slice-0"}, {Name: "slice-1"}}
	users := []routefix.User{{Key: "rw", RWFlag: models.ReadWrite}}
	env, err := routefix.Setup("c06n", specs, users, func(ns *models.Namespace) {
		ns.AllowedDBS = map[string]bool{"db": true, "db2": true}
		ns.ShardRules = shardRules()
	})
	if err != nil {
		o.Skip = "fixture could not be set up (inconclusive)"
		return
	}
	defer env.Close()
	rt, err := router.NewRouter(env.NS)
	if err != nil {
		o.Skip = "router could not be built (inconclusive)"
		return
	}
	sdb := sessionDBs[c.SessionDB%len(sessionDBs)]
	cl, err := env.Dial("rw", sdb, 0)
	if err != nil {
		o.Skip = "client could not connect to the proxy (inconclusive)"
		return
	}
	defer cl.Close()
	o.Labels = append(o.Labels, "session_db_"+map[string]string{"db": "db", "": "none", "db2": "db2"}[sdb])

	var violation, known, knownWhat string
	for i, s := range c.Stmts {
		k := s.Kind % nKinds
		text := s.render(i)
		fwd := strings.TrimRight(text, ";")
		class := analysis(rt, sdb, fwd)
		r, err := cl.Exec(text)
		if err != nil {
			o.Skip = "transport error towards the proxy (inconclusive)"
			return
		}
		if r.Err != nil && routefix.InfraTrouble(r.Err.Message) {
			o.Skip = "the proxy reported backend connection trouble (inconclusive)"
			return
		}
		var verbatim, other []fakemysql.Event
		for _, ev := range env.Hits(tagOf(i)) {
			if ev.SQL == fwd {
				verbatim = append(verbatim, ev)
			} else {
				other = append(other, ev)
			}
		}
		how := "nothing_forwarded"
		switch {
		case len(verbatim) > 0:
			how = "verbatim"
		case len(other) > 0:
			how = "rewritten"
		case r.Err != nil:
			how = "rejected"
		}
		o.Labels = append(o.Labels, "analysis_"+class+"_"+how, "kind_"+kindNames[k])
		if class != "sharded" {
			continue
		}
		if !s.canonical() {
			o.NonTrivial = true
		}
		if len(verbatim) == 0 {
			continue
		}
		detail := fmt.Sprintf("session db %q, statement %d: the full analysis plans %q as sharded, but the client text arrived unrewritten: %s",
			sdb, i, text, routefix.Describe(verbatim))
		id := s.classify(sdb)
		if id == "" {
			if violation == "" {
				violation = detail
			}
			continue
		}
		o.Labels = append(o.Labels, "known_"+id)
		if known == "" {
			known, knownWhat = id, detail
		}
	}
	switch {
	case violation != "":
		o.Violation = violation
	case known != "":
		o.Known, o.KnownWhat = known, knownWhat
	}
	return
}

func TestC06FastPath(t *testing.T) {
	pbt.Run(t, pbt.Spec{ID: "C06", Sub: "fastpath", Quick: 600, Thorough: 2500,
		Rule: "sessions (current db: db / none / db2) of 1-6 statements of 21 shapes (select, comma join, join, left join, subquery in FROM / WHERE, union, delete, multi-table delete, delete with subquery, insert with/without INTO, insert set, insert select, replace with/without INTO, update, update with alias, multi-table update, update join, update with subquery) over hash, linked, global, mod (rule configured with capitals) and unsharded tables; names in lower/UPPER/Capitalised case, schema-qualified (db, db2, DB), backquoted, with newline, tab, CRLF or a comment (glued or spaced) before and after the name, parentheses and column lists glued to the name, keyword case, leading comment / hint, trailing comment / semicolon. non-trivial = the case contains a statement that the full analysis plans as sharded and that is not the canonical undecorated single-table form",
		Floor: 0.5}, genCase, checkCase)
}
