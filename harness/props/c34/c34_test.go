//go:build verif

// C34 Global sequence values are never issued twice.
//
// 1-3 sequence.MySQLSequence objects ("proxies"), each on its own backend.Slice
// whose master pool is a fakepool.Pool; all pools are backed by one simulated
// MYCAT_SEQUENCE row (docs/sequence-id.md: mycat_seq_nextval adds the increment
// to current_value and returns "current_value,increment").
package c34

import (
	"errors"
	"fmt"
	"sort"
	"sync"
	"testing"

	"github.com/XiaoMi/Gaea/log"
	"github.com/XiaoMi/Gaea/mysql"
	"github.com/XiaoMi/Gaea/proxy/sequence"
	"pgregory.net/rapid"
	"verifharness/internal/fakepool"
	"verifharness/internal/pbt"
)

func init() { log.SetGlobalLogger(fakepool.NullLogger{}) }

const (
	fOK          = iota
	fGetConn     // ConnectionPool.Get fails with a connection-type error
	fGetOther    // ConnectionPool.Get fails with another error
	fUseDB       // USE mycat fails
	fExec        // the SELECT fails with an SQL error
	fMissingRow  // no row for the sequence: the stored function returns its default "-999999999,null"
	fNonNumCur   // "abc,<incr>"
	fNonNumIncr  // "<value>,xyz"
	fNonNumBoth  // ","
	fOneField    // "<value>"
	fThreeFields // "<value>,<incr>,7"
	fEmptyString // ""
	fZeroIncr    // "<current>,0"
	fNegIncr     // "<current>,-<k>"
	fNoRows      // result set without rows
	fNull        // NULL
	fFloat       // "<value>.5,<incr>"
	nFaults
)

var faultNames = []string{"ok", "get_conn_error", "get_other_error", "usedb_error", "exec_error", "missing_row", "nonnumeric_current",
	"nonnumeric_increment", "nonnumeric_both", "one_field", "three_fields", "empty_string", "zero_increment", "negative_increment", "no_rows", "null", "float_current"}

type seqOp struct {
	Proxy int `json:"p"` // taken modulo the number of proxies
	Fault int `json:"f"` // outcome of the block fetch, if this request causes one
}

type seqCase struct {
	Proxies  int     `json:"proxies"`
	Start    int64   `json:"start"` // current_value in the table before the first fetch
	Incr     int64   `json:"incr"`  // increment column (block size), 1-5
	MaxLimit int64   `json:"max_limit"`
	Ops      []seqOp `json:"ops"`
}

// table is the simulated MYCAT_SEQUENCE row shared by every pool.
type table struct {
	mu     sync.Mutex
	name   string
	cur    int64
	incr   int64
	grants map[int][][2]int64 // proxy -> blocks (lo, hi] granted, in order
	// scripted outcome for the next fetch of each proxy
	pending map[int]int
	fetched map[int]int // proxy -> number of fetch attempts (Get calls) seen
}

const seqName = "GAEA_TEST.TBL_USER_INFO"

func (tb *table) pool(proxy int) *fakepool.Pool {
	p := fakepool.New(fmt.Sprintf("10.0.0.1:33%02d", proxy), nil)
	p.OnGet = func(_ *fakepool.Pool, n int) error {
		tb.mu.Lock()
		defer tb.mu.Unlock()
		tb.fetched[proxy]++
		switch tb.pending[proxy] {
		case fGetConn:
			return mysql.NewConnTypeError(p.Addr(), "failed to dial")
		case fGetOther:
			return errors.New("resource pool closed")
		}
		return nil
	}
	p.OnUseDB = func(c *fakepool.Conn, db string) error {
		tb.mu.Lock()
		defer tb.mu.Unlock()
		if tb.pending[proxy] == fUseDB {
			return mysql.NewError(mysql.ErrBadDB, "Unknown database 'mycat'")
		}
		if db != "mycat" {
			return mysql.NewError(mysql.ErrBadDB, "Unknown database '"+db+"'")
		}
		return nil
	}
	p.OnExec = func(c *fakepool.Conn, sql string) (*mysql.Result, error) {
		tb.mu.Lock()
		defer tb.mu.Unlock()
		if c.DB() != "mycat" {
			return nil, mysql.NewError(mysql.ErrSpDoesNotExist, "FUNCTION mycat_seq_nextval does not exist")
		}
		if sql != "SELECT mycat_seq_nextval('"+tb.name+"') as seq_val" {
			return nil, mysql.NewError(mysql.ErrParse, "unexpected statement: "+sql)
		}
		f := tb.pending[proxy]
		switch f {
		case fExec:
			return nil, mysql.NewError(mysql.ErrLockDeadlock, "Deadlock found when trying to get lock")
		case fOK:
			tb.cur += tb.incr
			tb.grants[proxy] = append(tb.grants[proxy], [2]int64{tb.cur, tb.cur + tb.incr})
			return fakepool.TextResult("seq_val", fmt.Sprintf("%d,%d", tb.cur, tb.incr)), nil
		case fMissingRow:
			return fakepool.TextResult("seq_val", "-999999999,null"), nil
		case fNonNumCur:
			return fakepool.TextResult("seq_val", fmt.Sprintf("abc,%d", tb.incr)), nil
		case fNonNumIncr:
			return fakepool.TextResult("seq_val", fmt.Sprintf("%d,xyz", tb.cur+tb.incr)), nil
		case fNonNumBoth:
			return fakepool.TextResult("seq_val", ","), nil
		case fOneField:
			return fakepool.TextResult("seq_val", fmt.Sprintf("%d", tb.cur+tb.incr)), nil
		case fThreeFields:
			return fakepool.TextResult("seq_val", fmt.Sprintf("%d,%d,7", tb.cur+tb.incr, tb.incr)), nil
		case fEmptyString:
			return fakepool.TextResult("seq_val", ""), nil
		case fZeroIncr: // increment column is 0: the UPDATE changes nothing
			return fakepool.TextResult("seq_val", fmt.Sprintf("%d,0", tb.cur)), nil
		case fNegIncr: // reply of a row with a negative increment (the table model itself is left alone)
			return fakepool.TextResult("seq_val", fmt.Sprintf("%d,-%d", tb.cur, tb.incr)), nil
		case fNoRows:
			return fakepool.TextResult("seq_val"), nil
		case fNull:
			return fakepool.TextResult("seq_val", nil), nil
		case fFloat:
			return fakepool.TextResult("seq_val", fmt.Sprintf("%d.5,%d", tb.cur+tb.incr, tb.incr)), nil
		}
		return nil, errors.New("unscripted")
	}
	return p
}

// genStart draws current_value: the documented -99, small values, and the neighbourhoods of the
// widths an implementation could wrongly parse with (2^31, 2^32, 2^53, 2^62); the column may be BIGINT.
func genStart(t *rapid.T) int64 {
	switch rapid.IntRange(0, 5).Draw(t, "sk") {
	case 0:
		return -99
	case 1:
		return int64(rapid.IntRange(-10, 10).Draw(t, "start"))
	case 2:
		return int64(rapid.IntRange(0, 100000).Draw(t, "start"))
	case 3:
		return int64(rapid.SampledFrom([]int{-999999999, -1000000000, 0, 1<<15 - 3, 1<<16 - 3}).Draw(t, "start"))
	}
	b := rapid.SampledFrom([]int64{1 << 31, 1 << 31, 1 << 32, 1 << 53, 1 << 62, 1<<63 - 1000}).Draw(t, "startb")
	return b + int64(rapid.IntRange(-12, 2).Draw(t, "startd"))
}

func genSeq(t *rapid.T) seqCase {
	c := seqCase{Proxies: rapid.IntRange(1, 3).Draw(t, "proxies"), Incr: int64(rapid.IntRange(1, 5).Draw(t, "incr"))}
	c.Start = genStart(t)
	if rapid.IntRange(0, 9).Draw(t, "mk") == 0 {
		c.MaxLimit = c.Start + int64(rapid.IntRange(1, 40).Draw(t, "ml"))
	}
	// fault rate of this history: 0 (half of the cases), low, high
	rate := rapid.SampledFrom([]int{0, 0, 0, 5, 10, 30}).Draw(t, "rate")
	n := rapid.IntRange(1, 60).Draw(t, "n")
	for i := 0; i < n; i++ {
		op := seqOp{Proxy: rapid.IntRange(0, c.Proxies-1).Draw(t, "p")}
		if rate > 0 && rapid.IntRange(0, 99).Draw(t, "fr") < rate {
			op.Fault = rapid.IntRange(1, nFaults-1).Draw(t, "f")
		}
		c.Ops = append(c.Ops, op)
	}
	return c
}

func newTable(c seqCase) *table {
	return &table{name: seqName, cur: c.Start, incr: c.Incr, grants: map[int][][2]int64{}, pending: map[int]int{}, fetched: map[int]int{}}
}

func inGrants(g [][2]int64, v int64) bool {
	for _, b := range g {
		if v > b[0] && v <= b[1] {
			return true
		}
	}
	return false
}

func checkSeq(c seqCase) (o pbt.Outcome) {
	if c.Proxies < 1 || c.Proxies > 8 || c.Incr < 1 || c.Incr > 1000 || len(c.Ops) > 5000 || c.Start > 1<<63-900 || c.Start < -(1<<40) {
		o.Skip = "outside the modelled domain"
		return
	}
	tb := newTable(c)
	var seqs []*sequence.MySQLSequence
	var pools []*fakepool.Pool
	for i := 0; i < c.Proxies; i++ {
		p := tb.pool(i)
		pools = append(pools, p)
		seqs = append(seqs, sequence.NewMySQLSequence(fakepool.MasterSlice("ns", p), seqName, "id", c.MaxLimit))
	}
	issued := map[int64]int{} // value -> op index that produced it
	last := map[int]int64{}
	hasLast := map[int]bool{}
	okFetches := map[int]int{}
	faulty, values, unexpectedErr, limitErr := 0, 0, 0, 0
	o.Labels = append(o.Labels, fmt.Sprintf("proxies_%d", c.Proxies))
	if c.Start >= 1<<31-400 {
		o.Labels = append(o.Labels, "start_beyond_int32")
	}
	if c.MaxLimit > 0 {
		o.Labels = append(o.Labels, "max_limit_set")
	}
	if p := pbt.Catch(func() {
		for i, op := range c.Ops {
			if op.Fault < 0 || op.Fault >= nFaults {
				o.Skip = "unknown fault"
				return
			}
			px := ((op.Proxy % c.Proxies) + c.Proxies) % c.Proxies
			tb.mu.Lock()
			tb.pending[px] = op.Fault
			before := tb.fetched[px]
			grantsBefore := len(tb.grants[px])
			tb.mu.Unlock()
			v, err := seqs[px].NextSeq()
			tb.mu.Lock()
			fetched := tb.fetched[px] > before
			granted := len(tb.grants[px]) > grantsBefore
			g := tb.grants[px]
			tb.mu.Unlock()
			if granted {
				okFetches[px]++
			}
			if fetched && op.Fault != fOK {
				faulty++
				o.Labels = append(o.Labels, "fault_"+faultNames[op.Fault])
				if err == nil {
					detail := fmt.Sprintf("op %d: proxy %d fetched a block and the fetch outcome was %s, but NextSeq returned value %d and no error (table current_value=%d increment=%d)",
						i, px, faultNames[op.Fault], v, tb.cur, tb.incr)
					// (C34-F1 / C34-F2, missing validation of the reply, were repaired in /repo; a recurrence is a plain violation)
					o.Violation = detail
					return
				}
				continue
			}
			if err != nil {
				if c.MaxLimit > 0 {
					limitErr++
				} else {
					unexpectedErr++
				}
				continue
			}
			values++
			if prev, dup := issued[v]; dup {
				o.Violation = fmt.Sprintf("op %d: proxy %d returned %d, which op %d had already returned", i, px, v, prev)
				return
			}
			issued[v] = i
			if hasLast[px] && v <= last[px] {
				o.Violation = fmt.Sprintf("op %d: proxy %d returned %d after %d (not strictly increasing)", i, px, v, last[px])
				return
			}
			last[px], hasLast[px] = v, true
			if !inGrants(g, v) {
				o.Violation = fmt.Sprintf("op %d: proxy %d returned %d, which lies in no block the table granted to it (blocks %v)", i, px, v, g)
				return
			}
		}
	}); p != "" {
		o.Violation = "runtime panic: " + p
		return
	}
	for i, p := range pools {
		if n := p.Outstanding(); n != 0 {
			o.Labels = append(o.Labels, "connection_not_recycled")
			_ = i
		}
	}
	if unexpectedErr > 0 {
		o.Labels = append(o.Labels, "error_without_scripted_fault")
	}
	if limitErr > 0 {
		o.Labels = append(o.Labels, "max_limit_reached")
	}
	multi := 0
	for _, n := range okFetches {
		if n >= 2 {
			multi++
		}
	}
	if multi >= 2 {
		o.Labels = append(o.Labels, "two_proxies_two_blocks_each")
	}
	if faulty > 0 {
		o.Labels = append(o.Labels, "has_faulty_fetch")
	}
	o.NonTrivial = values >= 2 && (multi >= 2 || faulty > 0)
	return
}

func TestC34Sequential(t *testing.T) {
	pbt.Run(t, pbt.Spec{ID: "C34", Sub: "sequential", Quick: 5000, Thorough: 50000,
		Rule:  "1-3 MySQLSequence objects over fake master pools sharing one simulated sequence row (current_value -99, small, 0-100000, or within -12..+2 of 2^31, 2^32, 2^53, 2^62 and near 2^63; increment 1-5; 10%: a max limit); 1-60 NextSeq calls on drawn proxies; each call carries the outcome of the block fetch it may cause (half of the histories fault-free, else 5-30% faults: Get errors, USE error, SQL error, missing row default '-999999999,null', non-numeric / float fields, 1 or 3 fields, empty string, zero / negative increment, no rows, NULL); oracle: no value twice, strictly increasing per proxy, every value inside a block (cur, cur+incr] the table granted to that proxy, a faulty fetch yields an error; non-trivial = at least 2 values returned and (2 proxies with >= 2 granted blocks each, or a faulty fetch happened)",
		Floor: 0.3}, genSeq, checkSeq)
}

// ---- concurrent callers ----

type concCase struct {
	Proxies int   `json:"proxies"`
	Start   int64 `json:"start"`
	Incr    int64 `json:"incr"`
	Workers []int `json:"workers"` // worker i calls NextSeq on proxy Workers[i] % Proxies
	Calls   int   `json:"calls"`   // calls per worker
	// every FailEvery-th Get of a proxy fails with a connection error (0 = never)
	FailEvery int `json:"fail_every"`
}

func genConc(t *rapid.T) concCase {
	c := concCase{Proxies: rapid.IntRange(1, 3).Draw(t, "proxies"), Incr: int64(rapid.IntRange(1, 5).Draw(t, "incr")),
		Start: genStart(t), Calls: rapid.IntRange(5, 40).Draw(t, "calls")}
	w := rapid.IntRange(2, 6).Draw(t, "w")
	for i := 0; i < w; i++ {
		c.Workers = append(c.Workers, rapid.IntRange(0, c.Proxies-1).Draw(t, "wp"))
	}
	if rapid.IntRange(0, 2).Draw(t, "fk") == 0 {
		c.FailEvery = rapid.IntRange(2, 7).Draw(t, "fe")
	}
	return c
}

func checkConc(c concCase) (o pbt.Outcome) {
	if c.Proxies < 1 || c.Proxies > 8 || c.Incr < 1 || c.Incr > 1000 || len(c.Workers) > 32 || len(c.Workers) < 1 || c.Calls < 1 || c.Calls > 1000 || c.Start > 1<<63-900 || c.Start < -(1<<40) {
		o.Skip = "outside the modelled domain"
		return
	}
	tb := newTable(seqCase{Start: c.Start, Incr: c.Incr})
	var seqs []*sequence.MySQLSequence
	for i := 0; i < c.Proxies; i++ {
		p := tb.pool(i)
		inner := p.OnGet
		fe := c.FailEvery
		p.OnGet = func(pp *fakepool.Pool, n int) error {
			if fe > 0 && n%fe == 0 {
				return mysql.NewConnTypeError(pp.Addr(), "failed to dial")
			}
			return inner(pp, n)
		}
		seqs = append(seqs, sequence.NewMySQLSequence(fakepool.MasterSlice("ns", p), seqName, "id", 0))
	}
	type res struct {
		proxy int
		vals  []int64
		panic string
	}
	results := make([]res, len(c.Workers))
	var wg sync.WaitGroup
	start := make(chan struct{})
	for w := range c.Workers {
		wg.Add(1)
		go func(w int) {
			defer wg.Done()
			px := ((c.Workers[w] % c.Proxies) + c.Proxies) % c.Proxies
			results[w].proxy = px
			<-start
			results[w].panic = pbt.Catch(func() {
				for i := 0; i < c.Calls; i++ {
					if v, err := seqs[px].NextSeq(); err == nil {
						results[w].vals = append(results[w].vals, v)
					}
				}
			})
		}(w)
	}
	close(start)
	wg.Wait()
	issued := map[int64]int{}
	total := 0
	shared := map[int]int{}
	for w, r := range results {
		shared[r.proxy]++
		if r.panic != "" {
			o.Violation = "runtime panic in worker: " + r.panic
			return
		}
		for i, v := range r.vals {
			total++
			if pw, dup := issued[v]; dup {
				o.Violation = fmt.Sprintf("value %d was returned twice (workers %d and %d, proxies %d and %d)", v, pw, w, results[pw].proxy, r.proxy)
				return
			}
			issued[v] = w
			if i > 0 && v <= r.vals[i-1] {
				o.Violation = fmt.Sprintf("worker %d on proxy %d saw %d after %d (one proxy's values must increase)", w, r.proxy, v, r.vals[i-1])
				return
			}
			if !inGrants(tb.grants[r.proxy], v) {
				o.Violation = fmt.Sprintf("worker %d: proxy %d returned %d, which lies in no block granted to it", w, r.proxy, v)
				return
			}
		}
	}
	contended := false
	var keys []int
	for k := range shared {
		keys = append(keys, k)
	}
	sort.Ints(keys)
	for _, k := range keys {
		if shared[k] >= 2 {
			contended = true
		}
	}
	if contended {
		o.Labels = append(o.Labels, "several_workers_on_one_proxy")
	}
	if len(keys) >= 2 {
		o.Labels = append(o.Labels, "several_proxies")
	}
	if c.FailEvery > 0 {
		o.Labels = append(o.Labels, "periodic_get_failure")
	}
	o.NonTrivial = contended && total >= 10
	return
}

func TestC34Concurrent(t *testing.T) {
	pbt.Run(t, pbt.Spec{ID: "C34", Sub: "concurrent", Quick: 1500, Thorough: 15000,
		Rule:  "2-6 goroutines released together, each calling NextSeq 5-40 times on one of 1-3 MySQLSequence objects over the shared simulated sequence row (increment 1-5; a third of the cases fail every k-th Get with a connection error); oracle: no value twice over all workers, each worker's values strictly increasing, every value inside a block granted to its proxy; non-trivial = at least two workers share a proxy and >= 10 values were returned; thorough tier also runs under -race",
		Floor: 0.5}, genConc, checkConc)
}
