//go:build verif

// C35 Only allow-listed client addresses can connect.
//
// Function level: server.NewNamespace(cfg).IsClientIPAllowed(ip) (the call that
// Session.IsAllowConnect makes with net.ParseIP(remote host)) against a
// reference prefix match on bit strings computed from the structured form of
// the allow-list, never from parsing the entry text.
package c35

import (
	"fmt"
	"net"
	"strings"
	"testing"

	"github.com/XiaoMi/Gaea/log"
	"github.com/XiaoMi/Gaea/models"
	"github.com/XiaoMi/Gaea/proxy/server"
	"pgregory.net/rapid"
	"verifharness/internal/fakepool"
	"verifharness/internal/pbt"
)

func init() { log.SetGlobalLogger(fakepool.NullLogger{}) }

// entry is one allow-list item in structured form.
type entry struct {
	V6     bool   `json:"v6"`     // address family of the entry
	Addr   []byte `json:"addr"`   // 4 or 16 bytes (host bits may be non-zero in a CIDR entry)
	Prefix int    `json:"prefix"` // -1: single address; else prefix length in the entry's own family (0-32 / 0-128)
	// Form selects the textual rendering:
	//  v4: 0 dotted quad, 1 "::ffff:a.b.c.d" (prefix rendered +96), 2 "::ffff:hhhh:hhhh" (prefix +96)
	//  v6: 0 RFC 5952 (Go), 1 fully expanded lower case, 2 fully expanded upper case, 3 expanded without leading zeros
	Form  int    `json:"form"`
	Lead  string `json:"lead"`  // whitespace before
	Trail string `json:"trail"` // whitespace after
	Blank bool   `json:"blank"` // an empty / whitespace-only entry (ignored by configuration parsing)
}

type ipCase struct {
	List []entry `json:"list"`
	// Client is 4 bytes (IPv4; presented to Gaea both as 4-byte and as IPv4-mapped 16-byte net.IP),
	// 16 bytes (IPv6; an IPv4-mapped value is IPv4 by definition), or empty (no parsable address).
	Client []byte `json:"client"`
}

func isMapped(b []byte) bool {
	if len(b) != 16 {
		return false
	}
	for i := 0; i < 10; i++ {
		if b[i] != 0 {
			return false
		}
	}
	return b[10] == 0xff && b[11] == 0xff
}

func expand6(b []byte, upper, strip bool) string {
	parts := make([]string, 8)
	for i := 0; i < 8; i++ {
		v := int(b[2*i])<<8 | int(b[2*i+1])
		f := "%04x"
		if strip {
			f = "%x"
		}
		parts[i] = fmt.Sprintf(f, v)
		if upper {
			parts[i] = strings.ToUpper(parts[i])
		}
	}
	return strings.Join(parts, ":")
}

func (e entry) text() string {
	if e.Blank {
		return e.Lead + e.Trail
	}
	var s string
	p := e.Prefix
	if !e.V6 {
		a := e.Addr
		switch e.Form {
		case 1:
			s = fmt.Sprintf("::ffff:%d.%d.%d.%d", a[0], a[1], a[2], a[3])
			if p >= 0 {
				p += 96
			}
		case 2:
			s = fmt.Sprintf("::ffff:%x:%x", int(a[0])<<8|int(a[1]), int(a[2])<<8|int(a[3]))
			if p >= 0 {
				p += 96
			}
		default:
			s = fmt.Sprintf("%d.%d.%d.%d", a[0], a[1], a[2], a[3])
		}
	} else {
		switch e.Form {
		case 1:
			s = expand6(e.Addr, false, false)
		case 2:
			s = expand6(e.Addr, true, false)
		case 3:
			s = expand6(e.Addr, false, true)
		default:
			s = net.IP(e.Addr).String()
		}
	}
	if p >= 0 {
		s += fmt.Sprintf("/%d", p)
	}
	return e.Lead + s + e.Trail
}

func prefixEq(a, b []byte, bits int) bool {
	for i := 0; i < bits; i++ {
		if (a[i/8]>>(7-uint(i%8)))&1 != (b[i/8]>>(7-uint(i%8)))&1 {
			return false
		}
	}
	return true
}

const (
	no = iota
	yes
	unasserted
)

// refMatch is the specification: does the client lie in the entry?
func refMatch(e entry, client []byte) int {
	if e.Blank || len(client) == 0 {
		return no
	}
	clientV4 := len(client) == 4
	c4 := client
	if isMapped(client) {
		clientV4, c4 = true, client[12:]
	}
	if !e.V6 {
		if !clientV4 {
			return no // different families
		}
		bits := e.Prefix
		if bits < 0 {
			bits = 32
		}
		if prefixEq(e.Addr, c4, bits) {
			return yes
		}
		return no
	}
	// IPv6 entry
	bits := e.Prefix
	if bits < 0 {
		bits = 128
	}
	if clientV4 {
		// An IPv6 block that covers the IPv4-mapped range: the property does not say
		// whether an IPv4 client "lies in" it (Go's net says no). Not asserted.
		mapped := append(append(make([]byte, 10), 0xff, 0xff), c4...)
		if prefixEq(e.Addr, mapped, bits) {
			return unasserted
		}
		return no
	}
	if prefixEq(e.Addr, client, bits) {
		return yes
	}
	return no
}

var spaces = []string{"", "", "", " ", "  ", "\t", " \t "}

func genAddr(t *rapid.T, v6 bool, name string) []byte {
	n := 4
	if v6 {
		n = 16
	}
	switch rapid.IntRange(0, 5).Draw(t, name+"_k") {
	case 0: // sparse: mostly zero bytes
		b := make([]byte, n)
		for i := 0; i < rapid.IntRange(0, 3).Draw(t, name+"_nz"); i++ {
			b[rapid.IntRange(0, n-1).Draw(t, name+"_i")] = rapid.Byte().Draw(t, name+"_b")
		}
		return b
	case 1: // dense ones
		b := make([]byte, n)
		for i := range b {
			b[i] = 0xff
		}
		for i := 0; i < rapid.IntRange(0, 2).Draw(t, name+"_nz"); i++ {
			b[rapid.IntRange(0, n-1).Draw(t, name+"_i")] = rapid.Byte().Draw(t, name+"_b")
		}
		return b
	case 2:
		if v6 {
			return append([]byte(nil), rapid.SampledFrom([][]byte{
				net.ParseIP("::1").To16(), net.ParseIP("fe80::1").To16(), net.ParseIP("2001:db8::8:800:200c:417a").To16(),
				net.ParseIP("::").To16(), net.ParseIP("64:ff9b::a00:1").To16(), net.ParseIP("::fffe:a00:1").To16(), net.ParseIP("0:0:0:0:0:ffff::").To16(),
			}).Draw(t, name+"_w")...)
		}
		return append([]byte(nil), rapid.SampledFrom([][]byte{{127, 0, 0, 1}, {10, 0, 0, 1}, {192, 168, 1, 255}, {0, 0, 0, 0}, {255, 255, 255, 255}, {172, 16, 254, 1}, {10, 255, 255, 255}}).Draw(t, name+"_w")...)
	}
	b := rapid.SliceOfN(rapid.Byte(), n, n).Draw(t, name)
	if v6 && isMapped(b) {
		b[0] = 0x20 // keep the IPv6 family genuinely IPv6; mapped values are produced through the v4 forms
	}
	return b
}

func genEntry(t *rapid.T, i int) entry {
	nm := fmt.Sprintf("e%d", i)
	e := entry{Lead: rapid.SampledFrom(spaces).Draw(t, nm+"_lead"), Trail: rapid.SampledFrom(spaces).Draw(t, nm+"_trail")}
	e.V6 = rapid.IntRange(0, 2).Draw(t, nm+"_fam") == 0
	e.Addr = genAddr(t, e.V6, nm+"_addr")
	if e.V6 && isMapped(e.Addr) {
		e.Addr[0] = 0x20
	}
	max := 32
	if e.V6 {
		max = 128
		e.Form = rapid.IntRange(0, 3).Draw(t, nm+"_form")
	} else {
		e.Form = rapid.SampledFrom([]int{0, 0, 0, 1, 2}).Draw(t, nm+"_form")
	}
	switch rapid.IntRange(0, 4).Draw(t, nm+"_pk") {
	case 0:
		e.Prefix = -1
	case 1:
		e.Prefix = rapid.SampledFrom([]int{0, 1, 7, 8, 9, 15, 16, 17, 23, 24, 25, 30, 31, max - 1, max, max / 2, max/2 + 1}).Draw(t, nm+"_p")
		if e.Prefix > max {
			e.Prefix = max
		}
	default:
		e.Prefix = rapid.IntRange(0, max).Draw(t, nm+"_p")
	}
	return e
}

func flipBit(b []byte, i int) {
	if i >= 0 && i < 8*len(b) {
		b[i/8] ^= 1 << (7 - uint(i%8))
	}
}

// addOne adds d (+1/-1) to the big-endian integer b, wrapping.
func addOne(b []byte, d int) {
	for i := len(b) - 1; i >= 0; i-- {
		v := int(b[i]) + d
		b[i] = byte(v)
		if v >= 0 && v <= 255 {
			return
		}
	}
}

func genClientNear(t *rapid.T, e entry) []byte {
	n := len(e.Addr)
	bits := e.Prefix
	if bits < 0 {
		bits = 8 * n
	}
	lo := append([]byte(nil), e.Addr...)
	hi := append([]byte(nil), e.Addr...)
	for i := bits; i < 8*n; i++ {
		lo[i/8] &^= 1 << (7 - uint(i%8))
		hi[i/8] |= 1 << (7 - uint(i%8))
	}
	c := append([]byte(nil), lo...)
	switch rapid.IntRange(0, 7).Draw(t, "near") {
	case 0: // network address
	case 1: // broadcast / last address
		c = hi
	case 2: // one below the block
		addOne(c, -1)
	case 3: // one above the block
		c = hi
		addOne(c, 1)
	case 4: // last prefix bit flipped: the sibling block
		flipBit(c, bits-1)
	case 5: // a host bit flipped: still inside
		if bits < 8*n {
			flipBit(c, rapid.IntRange(bits, 8*n-1).Draw(t, "hb"))
		}
	case 6: // some prefix bit flipped
		if bits > 0 {
			flipBit(c, rapid.IntRange(0, bits-1).Draw(t, "pb"))
		}
	default: // random host part inside the block
		r := rapid.SliceOfN(rapid.Byte(), n, n).Draw(t, "host")
		for i := bits; i < 8*n; i++ {
			if (r[i/8]>>(7-uint(i%8)))&1 == 1 {
				c[i/8] |= 1 << (7 - uint(i%8))
			}
		}
	}
	return c
}

func genCase(t *rapid.T) ipCase {
	var c ipCase
	n := rapid.SampledFrom([]int{0, 1, 1, 1, 2, 2, 3, 4}).Draw(t, "n")
	for i := 0; i < n; i++ {
		c.List = append(c.List, genEntry(t, i))
	}
	if n > 0 && rapid.IntRange(0, 9).Draw(t, "blank") == 0 {
		// blank entries next to real ones (an all-blank list is not generated: whether it
		// counts as "empty" is configuration-parsing behaviour the property does not fix)
		pos := rapid.IntRange(0, n).Draw(t, "blankpos")
		b := entry{Blank: true, Lead: rapid.SampledFrom(spaces).Draw(t, "bl")}
		c.List = append(c.List[:pos], append([]entry{b}, c.List[pos:]...)...)
	}
	k := rapid.IntRange(0, 9).Draw(t, "ck")
	switch {
	case k <= 5 && n > 0: // next to a block boundary of one of the entries
		var real []entry
		for _, e := range c.List {
			if !e.Blank {
				real = append(real, e)
			}
		}
		e := real[rapid.IntRange(0, len(real)-1).Draw(t, "which")]
		c.Client = genClientNear(t, e)
		if !e.V6 && rapid.IntRange(0, 3).Draw(t, "as16") == 0 {
			// the same IPv4 address given as a 16-byte mapped value
			c.Client = append(append(make([]byte, 10), 0xff, 0xff), c.Client...)
		}
	case k == 6:
		c.Client = nil
	case k == 7:
		c.Client = genAddr(t, true, "cl6")
	default:
		c.Client = genAddr(t, false, "cl4")
	}
	return c
}

func checkCase(c ipCase) (o pbt.Outcome) {
	if len(c.Client) != 0 && len(c.Client) != 4 && len(c.Client) != 16 {
		o.Skip = "client is not an address"
		return
	}
	if len(c.List) > 16 {
		o.Skip = "list too long"
		return
	}
	cfg := &models.Namespace{Name: "ns_c35", DefaultSlice: "slice-0", Slices: []*models.Slice{{Name: "slice-0"}}}
	real := 0
	for _, e := range c.List {
		if !e.Blank {
			if (e.V6 && len(e.Addr) != 16) || (!e.V6 && len(e.Addr) != 4) || e.Prefix < -1 || (e.V6 && e.Prefix > 128) || (!e.V6 && e.Prefix > 32) {
				o.Skip = "malformed entry"
				return
			}
			if e.V6 && isMapped(e.Addr) {
				o.Skip = "IPv4-mapped value filed under the IPv6 family"
				return
			}
			if strings.Trim(e.Lead+e.Trail, " \t") != "" {
				o.Skip = "entry padding is not whitespace"
				return
			}
			real++
		}
		cfg.AllowedIP = append(cfg.AllowedIP, e.text())
	}
	if real == 0 && len(c.List) > 0 {
		o.Skip = "all-blank list"
		return
	}

	// reference verdict
	want := no
	if real == 0 {
		want = yes
		o.Labels = append(o.Labels, "empty_list")
	} else {
		for _, e := range c.List {
			switch refMatch(e, c.Client) {
			case yes:
				want = yes
			case unasserted:
				if want == no {
					want = unasserted
				}
			}
		}
	}
	for _, e := range c.List {
		switch {
		case e.Blank:
			o.Labels = append(o.Labels, "blank_entry")
		case e.V6 && e.Prefix >= 0:
			o.Labels = append(o.Labels, "entry_v6_cidr")
		case e.V6:
			o.Labels = append(o.Labels, "entry_v6_addr")
		case e.Form != 0 && e.Prefix >= 0:
			o.Labels = append(o.Labels, "entry_v4mapped_cidr")
		case e.Form != 0:
			o.Labels = append(o.Labels, "entry_v4mapped_addr")
		case e.Prefix >= 0:
			o.Labels = append(o.Labels, "entry_v4_cidr")
		default:
			o.Labels = append(o.Labels, "entry_v4_addr")
		}
		if e.Lead+e.Trail != "" && !e.Blank {
			o.Labels = append(o.Labels, "entry_padded")
		}
	}
	switch {
	case len(c.Client) == 0:
		o.Labels = append(o.Labels, "client_none")
	case len(c.Client) == 4:
		o.Labels = append(o.Labels, "client_v4")
	case isMapped(c.Client):
		o.Labels = append(o.Labels, "client_v4mapped")
	default:
		o.Labels = append(o.Labels, "client_v6")
	}
	o.Labels = append(o.Labels, []string{"want_deny", "want_allow", "want_unasserted"}[want])
	o.NonTrivial = real > 0 && len(c.Client) > 0

	var ns *server.Namespace
	var err error
	if p := pbt.Catch(func() { ns, err = server.NewNamespace(cfg, "") }); p != "" {
		o.Violation = fmt.Sprintf("NewNamespace panicked for allow-list %q: %s", cfg.AllowedIP, p)
		return
	}
	if err != nil {
		for _, e := range c.List {
			if e.Blank {
				// whether a blank entry is ignored or refused is configuration parsing the property does not fix
				o.Skip = "configuration with a blank entry was rejected"
				o.NonTrivial = false
				o.Labels = nil
				return
			}
		}
		// every generated entry is a valid address or CIDR block: configuration must be accepted
		o.Violation = fmt.Sprintf("NewNamespace rejected the valid allow-list %q: %v", cfg.AllowedIP, err)
		return
	}
	defer ns.Close(false)

	// presentations of the client address
	type pres struct {
		name string
		ip   net.IP
	}
	var forms []pres
	switch {
	case len(c.Client) == 0:
		forms = []pres{{"nil", nil}}
	case len(c.Client) == 4:
		forms = []pres{{"4-byte", net.IP(append([]byte(nil), c.Client...))},
			{"ipv4-mapped 16-byte", net.IP(append(append(make([]byte, 10), 0xff, 0xff), c.Client...))}}
	case isMapped(c.Client):
		forms = []pres{{"ipv4-mapped 16-byte", net.IP(append([]byte(nil), c.Client...))},
			{"4-byte", net.IP(append([]byte(nil), c.Client[12:]...))}}
	default:
		forms = []pres{{"16-byte", net.IP(append([]byte(nil), c.Client...))}}
	}
	var first bool
	for i, f := range forms {
		var got bool
		if p := pbt.Catch(func() { got = ns.IsClientIPAllowed(f.ip) }); p != "" {
			o.Violation = fmt.Sprintf("IsClientIPAllowed(%v as %s) panicked with allow-list %q: %s", f.ip, f.name, cfg.AllowedIP, p)
			return
		}
		if want != unasserted && got != (want == yes) {
			o.Violation = fmt.Sprintf("allow-list %q, client %v presented as %s: allowed=%v, reference says %v", cfg.AllowedIP, f.ip, f.name, got, want == yes)
			return
		}
		if i == 0 {
			first = got
		} else if got != first {
			o.Violation = fmt.Sprintf("allow-list %q: client %v allowed=%v as %s but %v as %s", cfg.AllowedIP, f.ip, first, forms[0].name, got, f.name)
			return
		}
	}
	return
}

func TestC35AllowList(t *testing.T) {
	pbt.Run(t, pbt.Spec{ID: "C35", Sub: "allowlist", Quick: 50000, Thorough: 500000,
		Rule:  "allow-lists of 0-4 entries: IPv4 / IPv6 addresses and CIDR blocks of every prefix length (host bits may be set), IPv4 entries also written ::ffff:a.b.c.d and ::ffff:hhhh:hhhh (prefix+96), IPv6 written compressed, expanded, upper case; blanks around entries; occasional blank entry; client = network address, last address, one below, one above, sibling block, flipped host/prefix bit or random host inside one of the entries, or an unrelated IPv4/IPv6 address, or none; every IPv4 client is presented both as 4-byte and as IPv4-mapped 16-byte net.IP; non-trivial = non-empty list and a real client address",
		Floor: 0.6}, genCase, checkCase)
}
