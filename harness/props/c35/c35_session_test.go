//go:build verif

package c35

import (
	"fmt"
	"net"
	"strings"
	"sync/atomic"
	"testing"

	"github.com/XiaoMi/Gaea/models"
	"github.com/XiaoMi/Gaea/proxy/server"
	"pgregory.net/rapid"
	"verifharness/internal/pbt"
	"verifharness/internal/proxyfix"
)

// Session level: the real Session.IsAllowConnect (through the verif hook
// server.VerifIsAllowConnect) for a session whose peer address string is
// generated, against a namespace installed in the shared Manager through the
// real two-phase reload.

// peer is one remote address as net.Conn.RemoteAddr().String() would render it.
type peer struct {
	// Kind: v4 "a.b.c.d:port"; v6 "[x]:port"; mapped "[::ffff:a.b.c.d]:port"; zoned "[x%zone]:port";
	// noport: the bare address; garbage: Text verbatim (nothing that denotes an IP address)
	Kind string `json:"kind"`
	Addr []byte `json:"addr,omitempty"` // 4 or 16 bytes
	Port int    `json:"port,omitempty"`
	Zone string `json:"zone,omitempty"`
	Text string `json:"text,omitempty"`
}

type sessCase struct {
	List  []entry `json:"list"`
	Peers []peer  `json:"peers"`
}

func (p peer) text() string {
	switch p.Kind {
	case "v4":
		return fmt.Sprintf("%d.%d.%d.%d:%d", p.Addr[0], p.Addr[1], p.Addr[2], p.Addr[3], p.Port)
	case "v6":
		return fmt.Sprintf("[%s]:%d", net.IP(p.Addr).String(), p.Port)
	case "v6full":
		return fmt.Sprintf("[%s]:%d", expand6(p.Addr, false, false), p.Port)
	case "mapped":
		return fmt.Sprintf("[::ffff:%d.%d.%d.%d]:%d", p.Addr[0], p.Addr[1], p.Addr[2], p.Addr[3], p.Port)
	case "zoned":
		return fmt.Sprintf("[%s%%%s]:%d", net.IP(p.Addr).String(), p.Zone, p.Port)
	case "noport":
		if len(p.Addr) == 4 {
			return fmt.Sprintf("%d.%d.%d.%d", p.Addr[0], p.Addr[1], p.Addr[2], p.Addr[3])
		}
		return net.IP(p.Addr).String()
	}
	return p.Text
}

var garbage = []string{"", ":3306", "localhost:3306", "not-an-address:3306", "300.1.1.1:80", "1.2.3:80", "1.2.3.4.5:80", "@", "/tmp/mysql.sock",
	"[]:3306", "[zz::1]:80", "1.2.3.4:80:90", "1.2.3.4/8:80", " 1.2.3.4:80", "[1.2.3.4:80", "0x7f.0.0.1:80", "::ffff:1.2.3.4.5:1", "%eth0:80"}

func genPeer(t *rapid.T, list []entry, i int) peer {
	nm := fmt.Sprintf("peer%d", i)
	var real []entry
	for _, e := range list {
		if !e.Blank {
			real = append(real, e)
		}
	}
	p := peer{Port: rapid.SampledFrom([]int{1, 80, 3306, 13306, 40000, 65535}).Draw(t, nm+"_port")}
	k := rapid.IntRange(0, 11).Draw(t, nm+"_k")
	var addr []byte
	if len(real) > 0 && k != 11 && rapid.IntRange(0, 3).Draw(t, nm+"_near") > 0 {
		addr = genClientNear(t, real[rapid.IntRange(0, len(real)-1).Draw(t, nm+"_which")])
	} else if rapid.Bool().Draw(t, nm+"_fam") {
		addr = genAddr(t, true, nm+"_a6")
	} else {
		addr = genAddr(t, false, nm+"_a4")
	}
	if isMapped(addr) {
		addr = addr[12:]
	}
	p.Addr = addr
	switch {
	case k == 11:
		p.Kind, p.Addr, p.Port = "garbage", nil, 0
		p.Text = rapid.SampledFrom(garbage).Draw(t, nm+"_g")
	case k == 10:
		p.Kind = "noport"
	case k >= 8 && len(addr) == 16:
		p.Kind = "zoned"
		p.Zone = rapid.SampledFrom([]string{"eth0", "1", "lo", "en0"}).Draw(t, nm+"_zone")
		if rapid.Bool().Draw(t, nm+"_ll") {
			p.Addr = append([]byte{0xfe, 0x80, 0, 0, 0, 0, 0, 0}, addr[8:]...)
		}
	case len(addr) == 4 && k%3 == 0:
		p.Kind = "mapped"
	case len(addr) == 4:
		p.Kind = "v4"
	case k%2 == 0:
		p.Kind = "v6full"
	default:
		p.Kind = "v6"
	}
	return p
}

func genSess(t *rapid.T) sessCase {
	var c sessCase
	n := rapid.SampledFrom([]int{0, 1, 1, 2, 2, 3, 4}).Draw(t, "n")
	for i := 0; i < n; i++ {
		c.List = append(c.List, genEntry(t, i))
	}
	for i, np := 0, rapid.IntRange(1, 6).Draw(t, "npeers"); i < np; i++ {
		c.Peers = append(c.Peers, genPeer(t, c.List, i))
	}
	return c
}

var nsCounter int64

func checkSess(c sessCase) (o pbt.Outcome) {
	if len(c.List) > 16 || len(c.Peers) > 32 {
		o.Skip = "oversized case"
		return
	}
	px, err := proxyfix.Shared()
	if err != nil {
		o.Skip = "fixture: " + err.Error()
		return
	}
	name := proxyfix.UniqueName("c35s", atomic.AddInt64(&nsCounter, 1))
	cfg := &models.Namespace{Name: name, Online: true, DefaultSlice: "slice-0", Slices: []*models.Slice{{Name: "slice-0"}},
		AllowedDBS: map[string]bool{"db": true}, DownAfterNoAlive: 3600,
		Users: []*models.User{{UserName: name + "_u", Password: "pw", Namespace: name, RWFlag: models.ReadWrite, RWSplit: models.NoReadWriteSplit}}}
	for _, e := range c.List {
		if e.Blank {
			o.Skip = "blank entries are covered by the function-level sub-check"
			return
		}
		if (e.V6 && len(e.Addr) != 16) || (!e.V6 && len(e.Addr) != 4) || e.Prefix < -1 || (e.V6 && e.Prefix > 128) || (!e.V6 && e.Prefix > 32) ||
			(e.V6 && isMapped(e.Addr)) || strings.Trim(e.Lead+e.Trail, " \t") != "" {
			o.Skip = "malformed entry"
			return
		}
		cfg.AllowedIP = append(cfg.AllowedIP, e.text())
	}
	for _, p := range c.Peers {
		switch p.Kind {
		case "v4", "mapped":
			if len(p.Addr) != 4 {
				o.Skip = "malformed peer"
				return
			}
		case "v6", "v6full", "zoned":
			if len(p.Addr) != 16 || isMapped(p.Addr) || (p.Kind == "zoned" && (p.Zone == "" || strings.ContainsAny(p.Zone, "]%:[ "))) {
				o.Skip = "malformed peer"
				return
			}
		case "noport":
			if len(p.Addr) != 4 && len(p.Addr) != 16 {
				o.Skip = "malformed peer"
				return
			}
		case "garbage":
			if h, _, err := net.SplitHostPort(p.Text); err == nil && net.ParseIP(h) != nil {
				o.Skip = "garbage peer denotes an address"
				return
			}
		default:
			o.Skip = "unknown peer kind"
			return
		}
	}
	if err := px.Manager.ReloadNamespacePrepare(cfg); err != nil {
		o.Violation = fmt.Sprintf("namespace with the valid allow-list %q was refused: %v", cfg.AllowedIP, err)
		return
	}
	if err := px.Manager.ReloadNamespaceCommit(name); err != nil {
		o.Skip = "commit failed: " + err.Error()
		return
	}
	defer px.Manager.DeleteNamespace(name)

	if len(c.List) == 0 {
		o.Labels = append(o.Labels, "empty_list")
	}
	for i, p := range c.Peers {
		want := no
		switch {
		case len(c.List) == 0:
			want = yes
		case p.Kind == "garbage":
			want = no
		default:
			for _, e := range c.List {
				switch refMatch(e, p.Addr) {
				case yes:
					want = yes
				case unasserted:
					if want == no {
						want = unasserted
					}
				}
			}
			// zoned and port-less renderings: only "an address outside the list is refused" is asserted
			if (p.Kind == "zoned" || p.Kind == "noport") && want == yes {
				want = unasserted
			}
		}
		o.Labels = append(o.Labels, "peer_"+p.Kind, []string{"want_deny", "want_allow", "want_unasserted"}[want])
		if len(c.List) > 0 && want != unasserted {
			o.NonTrivial = true
		}
		var got bool
		txt := p.text()
		if pn := pbt.Catch(func() { got = server.VerifIsAllowConnect(px.Manager, name, txt) }); pn != "" {
			o.Violation = fmt.Sprintf("IsAllowConnect panicked for peer %q with allow-list %q: %s", txt, cfg.AllowedIP, pn)
			return
		}
		if want != unasserted && got != (want == yes) {
			o.Violation = fmt.Sprintf("allow-list %q, peer %d %q (%s): session allowed=%v, reference says %v", cfg.AllowedIP, i, txt, p.Kind, got, want == yes)
			return
		}
	}
	// a session of a namespace that does not exist is never admitted
	if server.VerifIsAllowConnect(px.Manager, name+"_missing", "127.0.0.1:3306") {
		o.Violation = "a session bound to an unknown namespace was admitted"
	}
	return
}

func TestC35Session(t *testing.T) {
	pbt.Run(t, pbt.Spec{ID: "C35", Sub: "session", Quick: 3000, Thorough: 30000,
		Rule:  "allow-lists of 0-4 entries as in the allowlist sub-check (no blank entries), installed as a namespace of the shared Manager through ReloadNamespacePrepare/Commit; 1-6 peer address strings per list: 'a.b.c.d:port', '[v6]:port' (compressed or expanded), '[::ffff:a.b.c.d]:port', zoned '[v6%zone]:port', the bare address without port, and strings that denote no IP address (host names, out-of-range octets, empty, unix paths, broken brackets); addresses mostly at the block boundaries of an entry; the real Session.IsAllowConnect decides; oracle: empty list admits everything, a non-empty list admits exactly the peers whose address the reference matcher accepts, refuses garbage; for zoned and port-less renderings only refusal of non-matching addresses is asserted; non-trivial = non-empty list with at least one asserted peer",
		Floor: 0.6}, genSess, checkSess)
}
