//go:build verif

// C22 Read/write splitting sends only plain reads to replicas.
//
// Black box: a real proxy, one slice with a simulated master and a simulated
// replica, a client session per case. The role of the backend that received
// each client statement is read from the backends' event logs.
package c22

import (
	"fmt"
	"strings"
	"testing"

	"github.com/XiaoMi/Gaea/models"
	"pgregory.net/rapid"

	"verifharness/internal/fakemysql"
	"verifharness/internal/pbt"
	"verifharness/internal/proxyfix"
	"verifharness/internal/rawclient"
	"verifharness/internal/routefix"
)

// statement classes
const (
	clPlainSelect = iota
	clPlainShow
	clWrite
	clLocking
	clHintSelect
	clHintShow
	clProbeSelect
	clProbeShow
	nClasses
)

var classNames = []string{"plain_select", "plain_show", "write", "locking_read", "hinted_select", "hinted_show", "probe_select", "probe_show"}

// step operations
const (
	opStmt = iota
	opBegin
	opStartTx
	opCommit
	opRollback
	opAutocommit0
	opAutocommit1
	opMulti // 2-3 statements in one COM_QUERY packet (CLIENT_MULTI_STATEMENTS + support_multi_query)
)

type stmt struct {
	Class    int `json:"class"`
	Form     int `json:"form"`      // variant inside the class (modulo what exists)
	Lock     int `json:"lock"`      // locking clause: 0 FOR UPDATE, 1 FOR SHARE, 2 LOCK IN SHARE MODE
	LockOpt  int `json:"lock_opt"`  // 0 none, 1 NOWAIT, 2 SKIP LOCKED (only for Lock 0/1)
	HintPos  int `json:"hint_pos"`  // 0 leading, 1 after the first keyword, 2 trailing
	HintCase int `json:"hint_case"` // 0 /*master*/, 1 /*MASTER*/, 2 /*Master*/
	KwCase   int `json:"kw_case"`   // 0 lower, 1 UPPER, 2 aLtErNaTiNg
	Sep      int `json:"sep"`       // separator between words
	Lead     int `json:"lead"`      // leading decoration
	Trail    int `json:"trail"`     // trailing decoration
}

type step struct {
	Op     int    `json:"op"`
	Stmt   stmt   `json:"stmt"`
	Pieces []stmt `json:"pieces,omitempty"` // opMulti
}

type c22Case struct {
	User            int    `json:"user"` // 0 rw+split, 1 rw no split, 2 ro+split, 3 ro no split
	CheckSelectLock bool   `json:"check_select_lock"`
	Steps           []step `json:"steps"`
}

var (
	seps   = []string{" ", "\n", "\t", "  ", " \r\n"}
	leads  = []string{"", "/* c */ ", "/* traceid=7f3a,span=1 */ ", "\n\t ", "-- c\n", "/*c*/", "# c\n"}
	trails = []string{"", " /* trace */", "/*trace*/", " -- trace", "\n", " ;", "\t ", " /* traceid=7f3a */ ", " # trace"}
	hints  = []string{"/*master*/", "/*MASTER*/", "/*Master*/"}
)

func leadIsBlockComment(i int) bool { return i == 1 || i == 2 || i == 5 }
func leadIsComment(i int) bool      { return leadIsBlockComment(i) || i == 4 || i == 6 }
func trailIsComment(i int) bool     { return i == 1 || i == 2 || i == 3 || i == 7 || i == 8 }

func userName(u int) string { return []string{"rwsplit", "rwplain", "rosplit", "roplain"}[u] }
func userRO(u int) bool     { return u >= 2 }
func userSplit(u int) bool  { return u == 0 || u == 2 }

func genStmt(t *rapid.T) stmt {
	var s stmt
	// must-be-master classes are what the property is about: weight them
	s.Class = rapid.SampledFrom([]int{clPlainSelect, clPlainShow, clWrite, clLocking, clLocking, clLocking, clHintSelect, clHintSelect,
		clHintShow, clProbeSelect, clProbeSelect, clProbeShow, clProbeShow}).Draw(t, "class")
	s.Form = rapid.IntRange(0, 5).Draw(t, "form")
	s.Lock = rapid.IntRange(0, 2).Draw(t, "lock")
	s.LockOpt = rapid.IntRange(0, 2).Draw(t, "lockopt")
	s.HintPos = rapid.IntRange(0, 2).Draw(t, "hintpos")
	s.HintCase = rapid.SampledFrom([]int{0, 0, 1, 2}).Draw(t, "hintcase")
	s.KwCase = rapid.SampledFrom([]int{0, 0, 1, 2}).Draw(t, "kwcase")
	s.Sep = rapid.SampledFrom([]int{0, 0, 0, 1, 2, 3, 4}).Draw(t, "sep")
	s.Lead = rapid.SampledFrom([]int{0, 0, 0, 1, 2, 3, 4, 5, 6}).Draw(t, "lead")
	s.Trail = rapid.SampledFrom([]int{0, 0, 1, 1, 2, 3, 4, 5, 6, 7, 8}).Draw(t, "trail")
	return s
}

func genCase(t *rapid.T) c22Case {
	c := c22Case{User: rapid.SampledFrom([]int{0, 0, 0, 0, 0, 0, 1, 2, 3}).Draw(t, "user"), CheckSelectLock: rapid.Bool().Draw(t, "csl")}
	n := rapid.IntRange(1, 6).Draw(t, "n")
	for i := 0; i < n; i++ {
		op := rapid.SampledFrom([]int{opStmt, opStmt, opStmt, opStmt, opStmt, opStmt, opStmt, opStmt, opStmt, opStmt, opStmt, opStmt,
			opMulti, opMulti, opMulti, opMulti,
			opBegin, opStartTx, opCommit, opRollback, opAutocommit0, opAutocommit1}).Draw(t, "op")
		st := step{Op: op}
		if op == opStmt {
			st.Stmt = genStmt(t)
		}
		if op == opMulti {
			// the interesting packets start with a plain read that may go to a replica
			first := genStmt(t)
			if rapid.IntRange(0, 3).Draw(t, "plainfirst") != 0 {
				first.Class = rapid.SampledFrom([]int{clPlainSelect, clPlainSelect, clPlainShow}).Draw(t, "firstclass")
			}
			st.Pieces = []stmt{first}
			for k := rapid.IntRange(1, 2).Draw(t, "more"); k > 0; k-- {
				st.Pieces = append(st.Pieces, genStmt(t))
			}
		}
		c.Steps = append(c.Steps, st)
	}
	return c
}

func applyCase(w string, mode int) string {
	switch mode {
	case 1:
		return strings.ToUpper(w)
	case 2:
		b := []byte(strings.ToLower(w))
		up := true
		for i := range b {
			if b[i] >= 'a' && b[i] <= 'z' {
				if up {
					b[i] -= 32
				}
				up = !up
			}
		}
		return string(b)
	}
	return w
}

// words returns the statement as a list of words (written in lower case) for step i.
func (s stmt) words(i int) []string {
	tbl := fmt.Sprintf("t_c22_%d", i)
	var w []string
	sel := [][]string{
		{"select", "*", "from", tbl},
		{"select", "a,", "b", "from", tbl, "where", "id", "=", "1"},
		{"select", "count(*)", "from", tbl},
		{"select", "a", "from", tbl, "where", "id", "in", "(1,", "2)", "order", "by", "a", "limit", "3"},
	}
	show := [][]string{
		{"show", "tables", "like", "'" + tbl + "%'"},
		{"show", "create", "table", tbl},
		{"show", "columns", "from", tbl},
		{"show", "index", "from", tbl},
	}
	switch s.Class {
	case clPlainSelect, clHintSelect:
		w = sel[s.Form%len(sel)]
	case clPlainShow, clHintShow:
		w = show[s.Form%len(show)]
	case clWrite:
		wr := [][]string{
			{"insert", "into", tbl, "(a)", "values", "(1)"},
			{"update", tbl, "set", "a", "=", "1", "where", "id", "=", "1"},
			{"delete", "from", tbl, "where", "id", "=", "1"},
			{"replace", "into", tbl, "(a)", "values", "(1)"},
		}
		w = wr[s.Form%len(wr)]
	case clLocking:
		w = append([]string{}, sel[s.Form%2]...) // lockable forms
		switch s.Lock {
		case 0:
			w = append(w, "for", "update")
		case 1:
			w = append(w, "for", "share")
		default:
			w = append(w, "lock", "in", "share", "mode")
		}
		if s.Lock < 2 {
			switch s.LockOpt {
			case 1:
				w = append(w, "nowait")
			case 2:
				w = append(w, "skip", "locked")
			}
		}
	case clProbeSelect:
		pr := [][]string{
			{"select", "@@read_only"},
			{"select", "@@global.read_only"},
			{"select", "@@read_only", "as", "ro_" + tbl},
			{"select", "@@global.read_only,", "@@hostname"},
		}
		w = pr[s.Form%len(pr)]
	case clProbeShow:
		pr := [][]string{
			{"show", "variables", "like", "'read_only'"},
			{"show", "global", "variables", "like", "'read_only'"},
			{"show", "variables", "like", "'%read_only%'"},
			{"show", "variables", "where", "variable_name", "=", "'read_only'"},
		}
		w = pr[s.Form%len(pr)]
	}
	return append([]string{}, w...)
}

// hasUpper reports whether the rendered statement spells the probe name with upper-case letters.
func (s stmt) hasUpper() bool { return s.KwCase != 0 }

// render builds the statement text of step i.
func (s stmt) render(i int) string {
	w := s.words(i)
	for k := range w {
		w[k] = applyCase(w[k], s.KwCase)
	}
	sep := seps[s.Sep%len(seps)]
	hinted := s.Class == clHintSelect || s.Class == clHintShow
	h := hints[s.HintCase%len(hints)]
	if hinted && s.HintPos%3 == 1 {
		w = append([]string{w[0], h}, w[1:]...)
	}
	body := strings.Join(w, sep)
	if hinted {
		switch s.HintPos % 3 {
		case 0:
			body = h + " " + body
		case 2:
			body = body + " " + h
		}
	}
	return leads[s.Lead%len(leads)] + body + trails[s.Trail%len(trails)]
}

// renderPiece is render for a piece of a multi-statement packet: a trailing line comment
// gets its newline (otherwise it would swallow the separator and the next piece) and a
// trailing semicolon is left to the packet's own separators.
func (s stmt) renderPiece(i int) string {
	t := s.Trail % len(trails)
	if t == 5 {
		s.Trail = 0
	}
	text := s.render(i)
	if t == 3 || t == 8 {
		text += "\n"
	}
	return text
}

func opText(op int) string {
	switch op {
	case opBegin:
		return "begin"
	case opStartTx:
		return "start transaction"
	case opCommit:
		return "commit"
	case opRollback:
		return "rollback"
	case opAutocommit0:
		return "set autocommit=0"
	case opAutocommit1:
		return "set autocommit=1"
	}
	return ""
}

func isHousekeeping(sql string) bool {
	l := strings.ToLower(strings.TrimSpace(sql))
	for _, p := range []string{"set ", "begin", "start transaction", "commit", "rollback", "use ", "select 1", "show slave status", "show master status"} {
		if l == strings.TrimSpace(p) || strings.HasPrefix(l, p) && (p[len(p)-1] == ' ' || l == p) {
			return true
		}
	}
	return false
}

func checkCase(c c22Case) (o pbt.Outcome) {
	specs := []proxyfix.SliceSpec{{Name: "slice-0", Replicas: 1}}
	users := []routefix.User{{Key: "rwsplit", RWFlag: models.ReadWrite, RWSplit: models.ReadWriteSplit}, {Key: "rwplain", RWFlag: models.ReadWrite},
		{Key: "rosplit", RWFlag: models.ReadOnly, RWSplit: models.ReadWriteSplit}, {Key: "roplain", RWFlag: models.ReadOnly}}
	env, err := routefix.Setup("c22n", specs, users, func(ns *models.Namespace) {
		ns.CheckSelectLock = c.CheckSelectLock
		ns.SupportMultiQuery = true
	})
	if err != nil {
		o.Skip = "fixture could not be set up (inconclusive)"
		return
	}
	defer env.Close()
	u := c.User % 4
	var caps uint32
	for _, st := range c.Steps {
		if st.Op == opMulti {
			caps = rawclient.ClientMultiStatements
		}
	}
	cl, err := env.Dial(userName(u), "db", caps)
	if err != nil {
		o.Skip = "client could not connect to the proxy (inconclusive)"
		return
	}
	defer cl.Close()
	// The configured check_select_lock is drawn both ways, but proxy/server.NewNamespace starts
	// from true and only ever copies a configured true, so the running namespace always has
	// lock detection on. The oracle follows the effective flag of the live namespace (exported
	// field): locking reads must be on the master while it is on; were a configured false ever
	// honoured, a locking read would count as a plain read.
	lockDetection := true
	if live := env.P.Manager.GetNamespace(env.Name); live != nil {
		lockDetection = live.CheckSelectLock
	}
	o.Labels = append(o.Labels, "user_"+userName(u), fmt.Sprintf("check_select_lock_cfg_%v_effective_%v", c.CheckSelectLock, lockDetection))

	servers := env.Cl.All()
	marks := make([]int, len(servers))
	window := func() []fakemysql.Event {
		var res []fakemysql.Event
		for k, s := range servers {
			var evs []fakemysql.Event
			evs, marks[k] = s.EventsSince(marks[k])
			for _, e := range evs {
				if e.Kind == "query" {
					res = append(res, e)
				}
			}
		}
		return res
	}

	explicitTx, autocommit := false, true
	var violation, known, knownWhat string
	// judge applies the oracle to one statement that the client saw succeed; evs are the
	// query events logged by the backends while it (or the packet it was part of) ran.
	judge := func(i int, how string, s stmt, text string, evs []fakemysql.Event, inTx bool) {
		cls := classNames[s.Class]
		fwd := strings.TrimSpace(strings.TrimRight(strings.TrimSpace(text), ";"))
		var hits []fakemysql.Event
		for _, e := range evs {
			if strings.TrimSpace(e.SQL) == fwd {
				hits = append(hits, e)
			}
		}
		if len(hits) == 0 {
			o.Labels = append(o.Labels, how+"unobserved_"+cls)
			return
		}
		onReplica := false
		for _, e := range hits {
			if e.Role != "master" {
				onReplica = true
			}
		}
		role := "master"
		if onReplica {
			role = "replica"
		}
		txl := "notx"
		if inTx {
			txl = "tx"
		}
		o.Labels = append(o.Labels, fmt.Sprintf("%s%s_%s_%s", how, cls, txl, role))
		if userRO(u) {
			// read-only users are kept off the master by design; the property's must-be-master
			// list is about users whose reads are split. Nothing is demanded; the role is only recorded.
			return
		}
		plain := s.Class == clPlainSelect || s.Class == clPlainShow || (s.Class == clLocking && !lockDetection)
		mustMaster := inTx || !userSplit(u) || !plain
		decorated := leadIsComment(s.Lead) || trailIsComment(s.Trail) || s.Sep != 0 || s.KwCase != 0 || s.Lead == 3 || (s.Trail >= 4 && s.Trail <= 6) || how != ""
		if mustMaster && decorated && !plain {
			o.NonTrivial = true
		}
		if !mustMaster || !onReplica {
			return
		}
		why := "it is a " + strings.ReplaceAll(cls, "_", " ")
		if inTx {
			why = "the session is inside a transaction"
		} else if !userSplit(u) {
			why = "the user has no read/write splitting"
		}
		where := ""
		if how != "" {
			where = " (" + strings.TrimSuffix(how, "_") + " of a multi-statement packet)"
		}
		detail := fmt.Sprintf("user %s, step %d%s: %q must run on the master (%s) but %s", userName(u), i, where, text, why, routefix.Describe(hits))
		id := classify(u, inTx, s)
		if id == "" {
			if violation == "" {
				violation = detail
			}
			return
		}
		o.Labels = append(o.Labels, "known_"+id)
		if known == "" {
			known, knownWhat = id, detail
		}
	}
	for i, st := range c.Steps {
		if st.Op != opStmt && st.Op != opMulti {
			r, err := cl.Exec(opText(st.Op))
			if err != nil {
				o.Skip = "transport error towards the proxy (inconclusive)"
				return
			}
			if r.Err != nil {
				if routefix.InfraTrouble(r.Err.Message) {
					o.Skip = "the proxy reported backend connection trouble (inconclusive)"
					return
				}
				o.Labels = append(o.Labels, "txop_rejected")
				continue
			}
			switch st.Op {
			case opBegin, opStartTx:
				explicitTx = true
			case opCommit, opRollback:
				explicitTx = false
			case opAutocommit0:
				autocommit = false
			case opAutocommit1:
				autocommit, explicitTx = true, false
			}
			window()
			continue
		}
		inTx := explicitTx || !autocommit
		if st.Op == opMulti {
			// every piece is routed by its own class, whatever ran before it in the same packet
			var texts []string
			var sent []int
			for j, ps := range st.Pieces {
				ps.Class %= nClasses
				if userRO(u) && ps.Class == clWrite {
					continue
				}
				texts = append(texts, ps.renderPiece(i*10+j+100))
				sent = append(sent, j)
			}
			if len(texts) == 0 {
				continue
			}
			window()
			rs, err := cl.Query(strings.Join(texts, ";"))
			if err != nil {
				o.Skip = "transport error towards the proxy (inconclusive)"
				return
			}
			evs := window()
			for k, j := range sent {
				ps := st.Pieces[j]
				ps.Class %= nClasses
				if k < len(rs) && rs[k].Err != nil && routefix.InfraTrouble(rs[k].Err.Message) {
					o.Skip = "the proxy reported backend connection trouble (inconclusive)"
					return
				}
				if k >= len(rs) || rs[k].Err != nil {
					o.Labels = append(o.Labels, "multi_piece_not_run_"+classNames[ps.Class])
					break
				}
				judge(i, fmt.Sprintf("multi_piece%d_", k), ps, texts[k], evs, inTx)
			}
			continue
		}
		s := st.Stmt
		s.Class %= nClasses
		if userRO(u) && s.Class == clWrite {
			o.Labels = append(o.Labels, "ro_write_not_sent")
			continue
		}
		text := s.render(i)
		window() // drop anything that arrived in between (health checks)
		r, err := cl.Exec(text)
		if err != nil {
			o.Skip = "transport error towards the proxy (inconclusive)"
			return
		}
		if r.Err != nil && routefix.InfraTrouble(r.Err.Message) {
			o.Skip = "the proxy reported backend connection trouble (inconclusive)"
			return
		}
		if r.Err != nil {
			// a rejection is not a routing violation
			o.Labels = append(o.Labels, "rejected_"+classNames[s.Class])
			continue
		}
		judge(i, "", s, text, window(), inTx)
	}
	switch {
	case violation != "":
		o.Violation = violation
	case known != "":
		o.Known, o.KnownWhat = known, knownWhat
	}
	return
}

// classify maps a must-be-master statement that reached a replica to a known
// root cause, or "" when none applies. Every predicate is over the case only.
func classify(u int, inTx bool, s stmt) string {
	if inTx || !userSplit(u) {
		return ""
	}
	switch s.Class {
	case clLocking:
		// F1: lock detection looks at the last two (three) words of the statement, so
		// anything after the locking clause hides it: a trailing comment.
		if trailIsComment(s.Trail) {
			return "C22-F1"
		}
	case clHintSelect:
		// F2: the hint is looked for at word 1 and at the last word only. A block comment in
		// front of a leading hint, or any comment behind a trailing hint, moves it away.
		if s.HintPos%3 == 0 && leadIsBlockComment(s.Lead) {
			return "C22-F2"
		}
		if s.HintPos%3 == 2 && trailIsComment(s.Trail) {
			return "C22-F2"
		}
	case clHintShow:
		// F3: SHOW is routed by handleShow, which never looks at the hint.
		return "C22-F3"
	}
	return ""
}

func TestC22Routing(t *testing.T) {
	pbt.Run(t, pbt.Spec{ID: "C22", Sub: "routing", Quick: 700, Thorough: 3000,
		Rule: "sessions of 1-6 steps (statement / begin / start transaction / commit / rollback / set autocommit) for a user that is rw+split (2/3 of cases), rw without splitting, ro+split or ro; statements drawn from plain select/show, writes, locking reads (FOR UPDATE, FOR SHARE, LOCK IN SHARE MODE, NOWAIT, SKIP LOCKED), /*master*/ hints at the three supported positions, read_only probes; keyword case, word separators (space, tab, newline, CRLF), leading and trailing comments (block, trace, --, #), trailing semicolon; a step may also be a multi-statement packet of 2-3 such statements (usually starting with a plain read), each piece judged by its own class; check_select_lock configured on and off. non-trivial = a rw user's must-be-master statement of a non-plain class with a comment, unusual spacing or letter case was observed at a backend",
		Floor: 0.4}, genCase, checkCase)
}
