//go:build verif

// C38 Malformed client input never crashes the proxy.
//
// Black-box against a live in-process proxy (internal/proxyfix) with a
// simulated MySQL backend: a structured generator (gen.go) builds handshake
// responses and 1-4 command packets with truncation, oversized length
// prefixes, zero-length packets, out-of-range statement ids and type codes;
// the bytes are written to a raw TCP connection. Oracle: the process survives
// (an unrecovered panic in a proxy goroutine kills this test binary; the input
// is written to $VERIF_OUT/last_input.json first so that the driver reports
// it), the fuzzed connection is closed by the proxy within a budget once the
// client has closed its side, a healthy session opened before the input still
// answers a text query and a prepared statement correctly afterwards, a new
// session can still be opened, the backend pool slots and the number of
// goroutines that belong to client sessions return to their values from
// before the input.
//
// A panic that Gaea recovers (Session.Run, Server.onConn, handleQuery) and that
// only closes the offending client's connection is not a violation.
package c38

import (
	"bytes"
	"encoding/json"
	"fmt"
	"net"
	"os"
	"path/filepath"
	"regexp"
	"runtime"
	"sort"
	"strings"
	"sync"
	"sync/atomic"
	"syscall"
	"testing"
	"time"

	"github.com/XiaoMi/Gaea/models"
	"pgregory.net/rapid"

	"verifharness/internal/fakemysql"
	"verifharness/internal/pbt"
	"verifharness/internal/proxyfix"
	"verifharness/internal/rawclient"
)

// ---------------------------------------------------------------------------
// wire encoding of the structured input
// ---------------------------------------------------------------------------

func lenenc(n uint64) []byte {
	switch {
	case n < 251:
		return []byte{byte(n)}
	case n < 1<<16:
		return []byte{0xfc, byte(n), byte(n >> 8)}
	case n < 1<<24:
		return []byte{0xfd, byte(n), byte(n >> 8), byte(n >> 16)}
	}
	return []byte{0xfe, byte(n), byte(n >> 8), byte(n >> 16), byte(n >> 24), byte(n >> 32), byte(n >> 40), byte(n >> 48), byte(n >> 56)}
}

func cut(p []byte, n int) []byte {
	if n >= 0 && n < len(p) {
		return p[:n]
	}
	return p
}

// frame wraps a payload in a packet header according to the frame mutation.
func frame(payload []byte, seq byte, m frameMut) []byte {
	n := len(payload)
	switch m.Mode {
	case "zero":
		return []byte{0, 0, 0, seq}
	case "hdr_more":
		n += m.Arg
	case "hdr_less":
		n -= m.Arg
		if n < 0 {
			n = 0
		}
	case "badseq":
		seq += byte(m.Arg)
	case "max":
		n = 0xffffff
	}
	if n > 0xffffff {
		n = 0xffffff
	}
	out := []byte{byte(n), byte(n >> 8), byte(n >> 16), seq}
	return append(out, payload...)
}

func (h *hsInput) payload(user string, salt []byte, password string) []byte {
	p := []byte{byte(h.Caps), byte(h.Caps >> 8), byte(h.Caps >> 16), byte(h.Caps >> 24),
		byte(h.MaxPacket), byte(h.MaxPacket >> 8), byte(h.MaxPacket >> 16), byte(h.MaxPacket >> 24), h.Collation}
	p = append(p, make([]byte, h.Reserved)...)
	switch h.UserKind {
	case 0:
		p = append(p, user...)
	case 1:
		p = append(p, "c38_nobody"...)
	case 3:
		p = append(p, h.User...)
	}
	if h.UserNul {
		p = append(p, 0)
	}
	var auth []byte
	switch h.AuthKind {
	case 0:
		auth = rawclient.NativeScramble(salt, password)
	case 1:
		auth = bytes.Repeat([]byte{0x42}, 20)
	case 3:
		auth = h.Auth
	}
	switch h.AuthPrefix {
	case 0:
		p = append(p, byte(len(auth)))
	case 1:
		p = append(p, lenenc(uint64(len(auth)))...)
	case 2:
		p = append(p, hostile8...)
	case 3:
		p = append(p, 0xfb)
	case 4:
		p = append(p, 0xfc, 0xff, 0xff)
	case 5:
		p = append(p, byte(len(auth)+5))
	case 6:
		p = append(p, 0xfe, 0, 0, 0, 0, 0, 0, 0, 0x80)
	case 7:
		p = append(p, 0xff)
	}
	p = append(p, auth...)
	if h.AuthPrefix == 8 {
		p = append(p, 0)
	}
	if h.WriteDB {
		p = append(p, h.DB...)
		if h.DBNul {
			p = append(p, 0)
		}
	}
	if h.WritePlug {
		p = append(p, h.Plugin...)
		if h.PluginNul {
			p = append(p, 0)
		}
	}
	p = append(p, h.Tail...)
	return cut(p, h.Trunc)
}

func (c *cmdInput) stmtID() uint32 {
	if c.IDMode == 0 {
		return uint32(c.StmtRef) // the proxy numbers a session's statements 0,1,2,...
	}
	return c.AbsID
}

func le32(v uint32) []byte { return []byte{byte(v), byte(v >> 8), byte(v >> 16), byte(v >> 24)} }

func (c *cmdInput) payload() []byte {
	p := []byte{c.Cmd}
	switch c.Cmd {
	case comQuery, comStmtPrepare, comInitDB:
		p = append(p, c.Text...)
	case comFieldList:
		p = append(p, c.Text...)
		if !c.NoNul {
			p = append(p, 0)
		}
		p = append(p, c.Wildcard...)
	case comStmtExecute:
		p = append(p, le32(c.stmtID())...)
		p = append(p, c.Flags)
		p = append(p, le32(c.Iter)...)
		if c.BitmapKind == 4 {
			break
		}
		if len(c.Params) > 0 || c.BitmapKind != 0 {
			bm := make([]byte, (len(c.Params)+7)/8)
			for i, pa := range c.Params {
				if pa.Null {
					bm[i/8] |= 1 << (uint(i) % 8)
				}
			}
			switch c.BitmapKind {
			case 1:
				if len(bm) > 0 {
					bm = bm[:len(bm)-1]
				}
			case 2:
				bm = append(bm, 0)
			case 3:
				for i := range bm {
					bm[i] = 0xff
				}
			}
			p = append(p, bm...)
			p = append(p, c.BoundFlag)
			if c.BoundFlag != 0 {
				for _, pa := range c.Params {
					p = append(p, pa.Type, pa.Flag)
				}
			}
			for _, pa := range c.Params {
				if !pa.Null {
					p = append(p, pa.Val...)
				}
			}
		}
	case comStmtLongData:
		p = append(p, le32(c.stmtID())...)
		p = append(p, byte(c.ParamID), byte(c.ParamID>>8))
		p = append(p, c.Data...)
	case comStmtReset, comStmtClose:
		p = append(p, le32(c.stmtID())...)
	default:
		p = append(p, c.Raw...)
	}
	return cut(p, c.Trunc)
}

// ---------------------------------------------------------------------------
// fixture: one namespace per process (the point of the property is that the
// rest of the proxy is unharmed, so the namespace, its backend pool and the
// backends are deliberately shared by all inputs of the run)
// ---------------------------------------------------------------------------

type fixture struct {
	p        *proxyfix.Proxy
	cl       *proxyfix.Cluster
	ns       string
	fuzzUser string
	okUser   string
}

const password = "c38pw"

var (
	fxOnce sync.Once
	fx     *fixture
	fxErr  error
	hSeq   int64
)

func getFixture() (*fixture, error) {
	fxOnce.Do(func() {
		// under "go test -fuzz" (and "go test" without the driver) the working directory is the source directory of
		// this package: keep the proxy's scratch directory (created relative to the cwd, made absolute at once) out of it
		if _, statErr := os.Stat("c38_test.go"); statErr == nil || os.Getenv("VERIF_FUZZ") != "" {
			d := os.Getenv("VERIF_OUT")
			if d == "" {
				d, _ = os.MkdirTemp("", "c38-scratch")
				scratchDir = d
			}
			if old, err := os.Getwd(); err == nil && d != "" && os.Chdir(d) == nil {
				defer os.Chdir(old)
			}
			// the fuzz engine discards the stderr of its workers: keep the Go runtime's crash report of a dying worker
			if os.Getenv("VERIF_FUZZ") != "" && d != "" {
				if fh, err := os.OpenFile(filepath.Join(d, fmt.Sprintf("fuzz_worker_%d.stderr", os.Getpid())), os.O_CREATE|os.O_WRONLY|os.O_APPEND, 0o644); err == nil {
					syscall.Dup2(int(fh.Fd()), 2)
				}
			}
		}
		p, err := proxyfix.Shared()
		if err != nil {
			fxErr = err
			return
		}
		id := int64(os.Getpid())
		f := &fixture{p: p, ns: proxyfix.UniqueName("c38ns", id), fuzzUser: proxyfix.UniqueName("c38fz", id), okUser: proxyfix.UniqueName("c38ok", id)}
		specs := []proxyfix.SliceSpec{{Name: "slice-0", Capacity: 2, MaxCapacity: 2}} // small pool: a leaked connection starves the others soon
		f.cl, err = proxyfix.NewCluster(specs)
		if err != nil {
			fxErr = err
			return
		}
		for _, s := range f.cl.All() {
			s.Handler = func(conn *fakemysql.Conn, sql string) fakemysql.Reply {
				if i := strings.Index(sql, "c38h"); i >= 0 {
					j := i
					for j < len(sql) && (sql[j] >= 'a' && sql[j] <= 'z' || sql[j] >= '0' && sql[j] <= '9') {
						j++
					}
					return fakemysql.Reply{Result: &fakemysql.ResultSet{Cols: []fakemysql.Column{{Name: "name", Type: fakemysql.TypeVarString}},
						Rows: [][][]byte{{[]byte(sql[i:j])}}}}
				}
				return fakemysql.Reply{Unhandled: true}
			}
		}
		slices := f.cl.SliceConfigs(specs)
		for _, sl := range slices {
			sl.HandshakeTimeout = 30000 // ms; the default of 500 ms is easily missed on a loaded machine
		}
		ns := proxyfix.BaseNamespace(f.ns, slices, []*models.User{
			{UserName: f.fuzzUser, Password: password, RWFlag: 2, RWSplit: 0},
			{UserName: f.okUser, Password: password, RWFlag: 2, RWSplit: 0}})
		ns.SupportMultiQuery = true
		ns.ShardRules = []*models.Shard{{DB: "db", Table: "tbl_s", Type: models.ShardMod, Key: "id", Locations: []int{2}, Slices: []string{"slice-0"}}}
		ns.GlobalSequences = nil
		if err := p.Install(ns); err != nil {
			fxErr = fmt.Errorf("install namespace: %v", err)
			return
		}
		fx = f
	})
	return fx, fxErr
}

func (f *fixture) poolInUse() int64 {
	ns := f.p.Manager.GetNamespace(f.ns)
	if ns == nil {
		return -1
	}
	sl := ns.GetSlice("slice-0")
	if sl == nil || sl.Master == nil || len(sl.Master.Nodes) == 0 || sl.Master.Nodes[0].ConnPool == nil {
		return -1
	}
	return sl.Master.Nodes[0].ConnPool.InUse()
}

// proxyGoroutines counts the goroutines that belong to client sessions of the proxy: those running
// Server.onConn (one per open session) and those started by session code (SessionExecutor / Session
// methods: the per-statement workers). Background goroutines of the proxy (listener, health checks of the
// slices and their ping helpers, statistics tickers, pool maintenance) come and go independently of any
// client input and are not counted.
func proxyGoroutines() (int, map[string]int) {
	buf := make([]byte, 1<<20)
	for {
		n := runtime.Stack(buf, true)
		if n < len(buf) {
			buf = buf[:n]
			break
		}
		buf = make([]byte, 2*len(buf))
	}
	count := 0
	sig := map[string]int{}
	for _, g := range strings.Split(string(buf), "\n\n") {
		created := ""
		if k := strings.Index(g, "\ncreated by "); k >= 0 {
			created = g[k+len("\ncreated by "):]
			if e := strings.IndexAny(created, " \n"); e > 0 {
				created = created[:e]
			}
		}
		session := strings.Contains(g, "proxy/server.(*Server).onConn(") ||
			strings.Contains(created, "proxy/server.(*SessionExecutor).") || strings.Contains(created, "proxy/server.(*Session).")
		if !session {
			continue
		}
		count++
		// signature: the innermost Gaea frame and the creating function
		inner := ""
		for _, l := range strings.Split(g, "\n") {
			if strings.HasPrefix(l, "github.com/XiaoMi/Gaea/") {
				inner = l
				if k := strings.LastIndexByte(inner, '('); k > 0 {
					inner = inner[:k]
				}
				break
			}
		}
		sig[strings.TrimPrefix(inner, "github.com/XiaoMi/Gaea/")+" <- "+strings.TrimPrefix(created, "github.com/XiaoMi/Gaea/")]++
	}
	return count, sig
}

func diffSigs(before, after map[string]int) string {
	var out []string
	for k, v := range after {
		if v > before[k] {
			out = append(out, fmt.Sprintf("+%d %s", v-before[k], k))
		}
	}
	sort.Strings(out)
	return strings.Join(out, "; ")
}

func writeLastInput(sub string, c c38Case) {
	dir := os.Getenv("VERIF_OUT")
	if dir == "" {
		return
	}
	cj, err := json.Marshal(c)
	if err != nil {
		return
	}
	b, _ := json.Marshal(map[string]interface{}{"property": "C38", "sub": sub, "expect": "pass",
		"detail": "the last input sent before the process died", "case": json.RawMessage(cj)})
	tmp := filepath.Join(dir, fmt.Sprintf("last_input.json.%d", os.Getpid()))
	if os.WriteFile(tmp, b, 0o644) == nil {
		os.Rename(tmp, filepath.Join(dir, "last_input.json"))
	}
}

// ---------------------------------------------------------------------------
// one fuzzed connection
// ---------------------------------------------------------------------------

// limits are the time budgets of one case. The native fuzz engine kills a worker whose single execution takes
// more than 10 s ("deadlocked!"), so under FuzzC38 every step is short, nothing is retried, and whatever would
// need more time to be decided (a connection that is not closed yet, an answer that does not arrive, a transport
// error) makes the execution inconclusive and is appended to $VERIF_OUT/fuzz_suspects.jsonl for a replay with the
// full budgets (./check C38 --replay after wrapping the case); process death, wrong answers and non-transport
// errors are still reported by the fuzz target.
type limits struct {
	fuzz     bool
	dial     time.Duration   // client-side timeout of a dial + handshake
	io       time.Duration   // client-side read/write timeout of the healthy sessions
	close    time.Duration   // budget for the proxy to close the fuzzed connection
	attempts int             // a miss must reproduce this often
	quiesce  time.Duration   // budget for pool slots and session goroutines to return
	retries  []time.Duration // pauses before the attempts of a healthy statement / dial
	overall  time.Duration   // 0: none; else no new step is started after this much time
}

var (
	fullLimits = limits{dial: 60 * time.Second, io: 60 * time.Second, close: 20 * time.Second, attempts: 3, quiesce: 30 * time.Second,
		retries: []time.Duration{0, 300 * time.Millisecond, time.Second, 3 * time.Second}}
	fuzzLimits = limits{fuzz: true, dial: 2 * time.Second, io: 2 * time.Second, close: 2 * time.Second, attempts: 1, quiesce: 1500 * time.Millisecond,
		retries: []time.Duration{0}, overall: 5 * time.Second}
	lim = fullLimits
)

func noteSuspect(sub, why string, c c38Case) {
	dir := os.Getenv("VERIF_OUT")
	if dir == "" {
		return
	}
	cj, err := json.Marshal(c)
	if err != nil {
		return
	}
	b, _ := json.Marshal(map[string]interface{}{"property": "C38", "sub": sub, "expect": "pass", "detail": "fuzz mode, inconclusive: " + why, "case": json.RawMessage(cj)})
	if fh, err := os.OpenFile(filepath.Join(dir, "fuzz_suspects.jsonl"), os.O_CREATE|os.O_WRONLY|os.O_APPEND, 0o644); err == nil {
		fh.Write(append(b, '\n'))
		fh.Close()
	}
}

// transportRe: error texts that speak of the proxy's path to its backend, not of the statement
var transportRe = regexp.MustCompile(`(?i)time ?out|timed out|deadline|connection|broken pipe|\bEOF\b|reset by peer|create resource|bad conn|invalid conn|i/o|\bpool\b|no alive|backendconn|get conn|unavailable|refused`)

type connOutcome struct {
	closed    bool // the proxy closed the connection within the budget after the client closed its side
	fixture   string
	received  []byte
	errPacket bool
	authOK    bool
}

func (f *fixture) runFuzzConn(c c38Case, budget time.Duration) (res connOutcome) {
	var nc net.Conn
	var wire []byte
	if c.Handshake != nil {
		cli, err := rawclient.Dial(f.p.Addr, rawclient.Options{SkipHandshake: true, Timeout: lim.dial})
		if err != nil {
			res.fixture = "dial: " + err.Error()
			return
		}
		nc = cli.NetConn()
		h := c.Handshake
		wire = append(wire, frame(h.payload(f.fuzzUser, cli.Salt, password), 1, h.Frame)...)
		switch h.SwitchKind {
		case 0:
			wire = append(wire, frame(rawclient.NativeScramble(cli.Salt, password), 3, frameMut{})...)
		case 2:
			wire = append(wire, 0, 0, 0, 3)
		case 3:
			wire = append(wire, frame(h.Switch, 3, frameMut{})...)
		}
	} else {
		db := []string{"db", "c38_unknown_db", ""}[c.ConnDB%3]
		cli, err := rawclient.Dial(f.p.Addr, rawclient.Options{User: f.fuzzUser, Password: password, DB: db, Timeout: lim.dial, Caps: rawclient.ClientMultiStatements})
		if err != nil {
			res.fixture = "well-formed handshake refused: " + err.Error()
			return
		}
		nc = cli.NetConn()
		res.authOK = true
	}
	defer nc.Close()
	wire = append(wire, c.cmdWire()...)

	// read everything the proxy sends until it closes the connection
	done := make(chan struct{})
	var rbuf bytes.Buffer
	var rerr error
	go func() {
		defer close(done)
		tmp := make([]byte, 32*1024)
		for {
			n, err := nc.Read(tmp)
			if rbuf.Len() < 1<<20 {
				rbuf.Write(tmp[:n])
			}
			if err != nil {
				rerr = err
				return
			}
		}
	}()
	nc.SetWriteDeadline(time.Now().Add(budget))
	_, werr := nc.Write(wire)
	if tc, ok := nc.(*net.TCPConn); ok {
		tc.CloseWrite()
	}
	nc.SetReadDeadline(time.Now().Add(budget))
	<-done
	res.received = rbuf.Bytes()
	// io.EOF or a reset: the proxy closed the connection; a timeout: it did not
	ne, isNet := rerr.(net.Error)
	res.closed = !(isNet && ne.Timeout())
	_ = werr // a write error means the proxy closed early, which the read side reports as well
	// look for ERR packets in what was received
	b := res.received
	for len(b) >= 4 {
		n := int(b[0]) | int(b[1])<<8 | int(b[2])<<16
		if len(b) < 4+n {
			break
		}
		if n > 0 && b[4] == 0xff {
			res.errPacket = true
		}
		b = b[4+n:]
	}
	return
}

// cmdWire is the byte stream of the command packets as written to the socket.
func (c c38Case) cmdWire() []byte {
	var wire []byte
	for i := range c.Cmds {
		wire = append(wire, frame(c.Cmds[i].payload(), 0, c.Cmds[i].Frame)...)
	}
	return wire
}

// ---------------------------------------------------------------------------
// the property
// ---------------------------------------------------------------------------

func checkC38(c c38Case) pbt.Outcome {
	sub := "command"
	if c.Handshake != nil {
		sub = "handshake"
	}
	return checkC38Sub(sub, c)
}

func checkC38Sub(sub string, c c38Case) (o pbt.Outcome) {
	if len(c.Cmds) > 8 {
		o.Skip = "malformed case"
		return
	}
	f, err := getFixture()
	if err != nil {
		o.Skip = "fixture: " + err.Error()
		return
	}
	hid := atomic.AddInt64(&hSeq, 1)
	started := time.Now()
	// soften: under the fuzz engine's 10 s limit a time-dependent verdict cannot be confirmed: inconclusive, noted
	soften := func(why string) bool {
		if !lim.fuzz {
			return false
		}
		noteSuspect(sub, why, c)
		o = pbt.Outcome{Skip: "fuzz mode, inconclusive: time-dependent verdict"}
		return true
	}
	late := func() bool {
		if lim.overall > 0 && time.Since(started) > lim.overall {
			o = pbt.Outcome{Skip: "fuzz mode, inconclusive: out of time"}
			return true
		}
		return false
	}

	// labels / non-trivial rule
	mutated := false
	if c.Handshake != nil {
		mutated = c.Handshake.Mutated
		if c.Handshake.Trunc >= 0 {
			o.Labels = append(o.Labels, "hs_truncated")
			if c.Handshake.Trunc >= 9 && c.Handshake.Trunc < 32 {
				o.Labels = append(o.Labels, "hs_cut_inside_filler")
			}
		}
		if c.Handshake.AuthPrefix >= 2 {
			o.Labels = append(o.Labels, fmt.Sprintf("hs_auth_prefix_%d", c.Handshake.AuthPrefix))
		}
		if c.Handshake.Frame.Mode != "" {
			o.Labels = append(o.Labels, "frame_"+c.Handshake.Frame.Mode)
		}
		if c.Handshake.Caps&capPluginAuth != 0 {
			o.Labels = append(o.Labels, "hs_plugin_auth")
		}
	}
	for i := range c.Cmds {
		cm := &c.Cmds[i]
		mutated = mutated || cm.Mutated
		name := map[byte]string{comQuery: "query", comStmtPrepare: "prepare", comStmtExecute: "execute", comStmtLongData: "long_data", comStmtReset: "reset",
			comStmtClose: "close", comFieldList: "field_list", comInitDB: "init_db", comPing: "ping", comSetOption: "set_option", comQuit: "quit"}[cm.Cmd]
		if name == "" {
			name = "unknown"
		}
		o.Labels = append(o.Labels, "cmd_"+name)
		if (cm.Cmd == comQuery || cm.Cmd == comStmtPrepare) && hasOpenEnded(c38Case{Cmds: []cmdInput{*cm}}) {
			o.Labels = append(o.Labels, "text_open_ended_"+name)
			if cm.Cmd == comStmtPrepare && i+1 < len(c.Cmds) && c.Cmds[i+1].Cmd == comStmtExecute {
				o.Labels = append(o.Labels, "open_ended_prepare_then_execute")
			}
		}
		if cm.Trunc >= 0 {
			o.Labels = append(o.Labels, "cmd_truncated")
		}
		if cm.Frame.Mode != "" {
			o.Labels = append(o.Labels, "frame_"+cm.Frame.Mode)
		}
		if cm.Cmd == comStmtExecute {
			if cm.IDMode == 1 {
				o.Labels = append(o.Labels, "stmt_id_out_of_range")
			}
			for _, pa := range cm.Params {
				if bytes.HasPrefix(pa.Val, hostile8[:1]) && len(pa.Val) >= 9 {
					o.Labels = append(o.Labels, "param_oversized_length_prefix")
				}
				if bytes.IndexByte(badTypes, pa.Type) >= 0 {
					o.Labels = append(o.Labels, "param_bad_type")
				}
			}
		}
	}
	if c.Handshake == nil && c.ConnDB != 0 {
		mutated = true
		o.Labels = append(o.Labels, []string{"", "conn_db_unknown", "conn_db_none"}[c.ConnDB%3])
		for i := range c.Cmds {
			if c.Cmds[i].Cmd == comFieldList && c.Cmds[i].Trunc < 0 && c.Cmds[i].Frame.Mode == "" {
				o.Labels = append(o.Labels, "field_list_without_usable_db")
				break
			}
		}
	}
	o.NonTrivial = mutated

	// healthy session, opened and used before the input. On a loaded machine the proxy may fail to get a backend
	// connection in time (2 s pool wait) and answer with a transport error: such an answer is retried, only a
	// persistent failure or a wrong answer counts
	dialOK := func() (*rawclient.Conn, error) {
		var cli *rawclient.Conn
		var err error
		for _, pause := range lim.retries {
			time.Sleep(pause)
			cli, err = rawclient.Dial(f.p.Addr, rawclient.Options{User: f.okUser, Password: password, DB: "db", Timeout: lim.dial})
			if err == nil {
				return cli, nil
			}
		}
		return nil, err
	}
	healthy, err := dialOK()
	if err != nil {
		if soften("healthy dial: " + err.Error()) {
			return
		}
		o.Violation = fmt.Sprintf("a well-formed session cannot be opened any more, %d attempts (damage from an earlier input of this run?): %v", len(lim.retries), err)
		return
	}
	defer healthy.Close()
	st, perr, err := healthy.Prepare("select name from t_ok where name = ?")
	if err != nil || perr != nil {
		if err != nil && soften("healthy prepare: "+err.Error()) {
			return
		}
		o.Violation = fmt.Sprintf("healthy session: prepare failed before the input: %v %v", err, perr)
		return
	}
	tagSeq := 0
	// ask runs one tagged statement (run gets the tag) and checks that exactly the tagged row comes back
	ask := func(what string, run func(tag string) (*rawclient.Result, error)) (msg string, soft bool) {
		var last string
		for _, pause := range lim.retries {
			time.Sleep(pause)
			tagSeq++
			want := fmt.Sprintf("c38h%dt%d", hid, tagSeq)
			r, err := run(want)
			if err != nil {
				return fmt.Sprintf("%s: %v", what, err), true // the client's own connection failed or timed out
			}
			if r.Err != nil {
				last = fmt.Sprintf("%s: %v", what, r.Err)
				if transportRe.MatchString(r.Err.Message) {
					continue
				}
				return last, false
			}
			var got string
			switch {
			case len(r.Rows) == 1 && len(r.Rows[0]) == 1:
				got = string(r.Rows[0][0])
			case len(r.RawRows) == 1 && len(r.RawRows[0]) >= 3:
				// binary row: 0x00, null bitmap (1 byte for one column), length-encoded string
				rr := r.RawRows[0]
				if int(rr[2]) == len(rr)-3 {
					got = string(rr[3:])
				}
			}
			if got != want {
				return fmt.Sprintf("%s: answer %q (rows %d), want %q", what, got, len(r.Rows)+len(r.RawRows), want), false
			}
			return "", false
		}
		return last + fmt.Sprintf(" (%d attempts)", len(lim.retries)), true
	}
	textQuery := func(cli *rawclient.Conn) func(string) (*rawclient.Result, error) {
		return func(tag string) (*rawclient.Result, error) {
			return cli.Exec("select name from t_ok where name = '" + tag + "'")
		}
	}
	if msg, soft := ask("healthy session, query before the input", textQuery(healthy)); msg != "" {
		if soft && soften(msg) {
			return
		}
		o.Violation = msg + " (damage from an earlier input of this run?)"
		return
	}
	if late() {
		return
	}

	// baselines
	inUse0 := f.poolInUse()
	g0, sig0 := proxyGoroutines()
	for i := 0; i < 3; i++ {
		runtime.Gosched()
		if g, s := proxyGoroutines(); g < g0 {
			g0, sig0 = g, s
		}
	}

	writeLastInput(sub, c)

	// the input; a connection that is not closed within the budget must reproduce three times
	attempts := lim.attempts
	res := f.runFuzzConn(c, lim.close)
	for i := 0; res.fixture != "" && i < 2; i++ {
		time.Sleep(time.Second)
		res = f.runFuzzConn(c, lim.close)
	}
	if res.fixture != "" {
		// the well-formed part of the fuzz connection could not be set up (dial or valid handshake timed out):
		// whether the proxy is damaged is decided by the healthy-session checks of this and the following cases
		o = pbt.Outcome{Skip: "inconclusive: fuzz connection could not be set up"}
		return
	}
	if !res.closed {
		hangs := 1
		for i := 1; i < attempts; i++ {
			if r2 := f.runFuzzConn(c, lim.close); r2.fixture == "" && !r2.closed {
				hangs++
			}
		}
		if hangs == attempts {
			if soften(fmt.Sprintf("fuzzed connection not closed within %v", lim.close)) {
				return
			}
			o.Violation = fmt.Sprintf("the proxy did not close the connection within %v after the client closed its side (%d of %d attempts); received %d bytes", lim.close, hangs, attempts, len(res.received))
			return
		}
		o = pbt.Outcome{Skip: "connection not closed within the budget, not reproducible"}
		return
	}
	if res.errPacket {
		o.Labels = append(o.Labels, "outcome_error_packet")
	} else {
		o.Labels = append(o.Labels, "outcome_closed_without_error_packet")
	}

	// quiescence first (so that a leak is attributed to this input and not to a starving later one): pool slots
	// and session goroutines back to the baseline
	deadline := time.Now().Add(lim.quiesce)
	for {
		inUse := f.poolInUse()
		g, sig := proxyGoroutines()
		if inUse <= inUse0 && g <= g0 {
			break
		}
		if time.Now().After(deadline) {
			if soften(fmt.Sprintf("not quiescent after %v: goroutines %d->%d, pool in use %d->%d", lim.quiesce, g0, g, inUse0, inUse)) {
				return
			}
			if g > g0 {
				o.Violation = fmt.Sprintf("goroutines of client sessions (Server.onConn and workers started by session code) did not return to the baseline: %d before the input, %d more than %v after it (%s)", g0, g, lim.quiesce, diffSigs(sig0, sig))
			} else {
				o.Violation = fmt.Sprintf("backend connections taken from the pool did not return: %d in use before the input, %d more than %v after it", inUse0, inUse, lim.quiesce)
			}
			return
		}
		time.Sleep(2 * time.Millisecond)
	}

	// the healthy session still answers correctly
	if late() {
		return
	}
	if msg, soft := ask("healthy session opened before the input, text query after it", textQuery(healthy)); msg != "" {
		if soft && soften(msg) {
			return
		}
		o.Violation = msg
		return
	}
	if late() {
		return
	}
	if msg, soft := ask("healthy session opened before the input, prepared statement executed after it", func(tag string) (*rawclient.Result, error) {
		return healthy.Execute(st, []rawclient.Param{{Type: 253, Value: rawclient.LenEncBytes([]byte(tag))}})
	}); msg != "" {
		if soft && soften(msg) {
			return
		}
		o.Violation = msg
		return
	}
	if late() {
		return
	}
	// a new session can be opened
	fresh, err := dialOK()
	if err != nil {
		if soften("fresh dial: " + err.Error()) {
			return
		}
		o.Violation = fmt.Sprintf("no new session can be opened after the input (%d attempts): %v", len(lim.retries), err)
		return
	}
	msg, soft := ask("new session opened after the input", textQuery(fresh))
	fresh.Close()
	if msg != "" {
		if soft && soften(msg) {
			return
		}
		o.Violation = msg
		return
	}
	if late() {
		return
	}

	return
}

func TestC38Handshake(t *testing.T) {
	pbt.Run(t, pbt.Spec{ID: "C38", Sub: "handshake", Quick: 1200, Thorough: 3000,
		Rule:  "HandshakeResponse41 built from fields (capability bits incl. no-4.1/secure-connection/lenenc-auth/connect-with-db/plugin-auth, filler length, user, auth data with length prefix variants fe+8xff, fb, fc+too long, length+5, 2^63, ff, NUL-terminated; database; plugin name; attributes), truncated at every offset class, framed with zero-length, too long/short announced length, wrong sequence; optional blind auth-switch answer and 0-2 command packets; non-trivial = at least one field deviates from a well-formed response",
		Floor: 0.5}, func(t *rapid.T) c38Case { return genCase(rapidSrc{t}, true) }, func(c c38Case) pbt.Outcome { return checkC38Sub("handshake", c) })
}

func TestC38Command(t *testing.T) {
	pbt.Run(t, pbt.Spec{ID: "C38", Sub: "command", Quick: 1800, Thorough: 4500,
		Rule:  "valid handshake, then 1-4 pipelined command packets: COM_QUERY (SQL list incl. sharded table, unterminated literals, raw bytes), COM_STMT_PREPARE, COM_STMT_EXECUTE (statement id by reference or out of range, flags, null bitmap variants, new-params-bound flag, valid and out-of-range type codes, values with valid or hostile encodings: truncated fixed-width, date/time length byte disagreeing with the data, length prefixes fe+8xff / fc ffff / fb / 2^63), COM_STMT_SEND_LONG_DATA, RESET, CLOSE, COM_FIELD_LIST with and without NUL, COM_INIT_DB, unknown commands; payload truncation, zero-length packets, wrong announced lengths and sequence ids; non-trivial = at least one mutation",
		Floor: 0.5}, func(t *rapid.T) c38Case { return genCase(rapidSrc{t}, false) }, func(c c38Case) pbt.Outcome { return checkC38Sub("command", c) })
}

// hasOpenEnded: some COM_QUERY / COM_STMT_PREPARE text of the case ends inside a lexical construct.
func hasOpenEnded(c c38Case) bool {
	for i := range c.Cmds {
		cm := &c.Cmds[i]
		if (cm.Cmd == comQuery || cm.Cmd == comStmtPrepare) && cm.Trunc < 0 && cm.Frame.Mode == "" {
			t := bytes.TrimRight(cm.Text, ";")
			for _, e := range openEndings {
				if len(t) >= len(e) && bytes.HasSuffix(t, []byte(e)) && len(e) > 1 && (bytes.Contains(t, []byte("select")) || bytes.Contains(t, []byte("insert")) || bytes.Contains(t, []byte("update")) || len(t) == len(e)) {
					return true
				}
			}
		}
	}
	return false
}

// scratchDir is the temporary directory used when the package is run without the driver; TestMain removes it.
var scratchDir string

func TestMain(m *testing.M) {
	code := m.Run()
	if scratchDir != "" {
		os.RemoveAll(scratchDir)
	}
	os.Exit(code)
}

// A fuzz worker starts its proxy and backend before the engine starts timing executions.
func init() {
	if os.Getenv("VERIF_FUZZ") == "" {
		return
	}
	for _, a := range os.Args[1:] {
		if strings.HasPrefix(a, "-test.fuzzworker") {
			getFixture()
			return
		}
	}
}

// FuzzC38 is the native coverage-guided variant (thorough tier): the fuzz bytes
// are decoded into the same structured input by the same generator.
func FuzzC38(f *testing.F) {
	f.Add([]byte{})                                   // well-formed session, one COM_QUERY
	f.Add([]byte{1})                                  // handshake phase, all plain choices
	f.Add([]byte{0, 1, 3, 0, 0, 0, 6, 0, 0, 0, 0, 0}) // prepare + execute
	f.Add([]byte{0, 3, 3, 0, 0, 0, 6, 0, 0, 0, 0, 0, 0, 0, 0, 0, 0, 0, 0, 99, 0, 0, 0, 0, 10, 0, 0, 0, 14, 0, 0, 0})
	f.Add([]byte{1, 0, 0, 0, 0, 0, 99, 0, 0, 0, 0, 0, 0, 0, 0, 0, 0, 0, 0, 0, 0, 0, 0, 0, 0, 0, 99, 6})
	f.Add(bytes.Repeat([]byte{0xff}, 64))
	f.Add(bytes.Repeat([]byte{0x63}, 48))
	// seeds whose statement texts end inside a comment, string, quoted identifier or escape (COM_QUERY, and
	// COM_STMT_PREPARE followed by its EXECUTE): found with the structured generator, recorded as fuzz bytes
	added := 0
	for seed := uint64(1); seed < 4000 && added < 32; seed++ {
		r := &recSrc{x: seed * 0x9e3779b97f4a7c15}
		phase := r.pick("phase", 2) == 1
		c := genCase(r, phase)
		if phase || !hasOpenEnded(c) {
			continue
		}
		// the recording must decode to the same case
		d := &byteSrc{b: r.rec}
		back := genCase(d, d.pick("phase", 2) == 1)
		bj, _ := json.Marshal(back)
		cj, _ := json.Marshal(c)
		if !bytes.Equal(bj, cj) {
			continue
		}
		f.Add(r.rec)
		added++
	}
	f.Fuzz(func(t *testing.T, data []byte) {
		if len(data) > 4096 {
			t.Skip()
		}
		lim = fuzzLimits
		s := &byteSrc{b: data}
		c := genCase(s, s.pick("phase", 2) == 1)
		o := checkC38(c)
		if o.Violation != "" && o.Known == "" {
			cj, _ := json.Marshal(c)
			t.Fatalf("violation: %s\ncase: %s", o.Violation, cj)
		}
	})
}
