//go:build verif

package c38

import (
	"bytes"
	"encoding/binary"

	"pgregory.net/rapid"
)

// ---------------------------------------------------------------------------
// The structured input. One generator (genCase) builds it from an abstract
// source of choices, which is either rapid (TestC38*) or the bytes of a native
// fuzz input (FuzzC38): by convention choice 0 / "no mutation" is the
// well-formed alternative, so an all-zero fuzz input is a well-formed session.
// ---------------------------------------------------------------------------

// frameMut says how the packet is framed on the wire.
type frameMut struct {
	// Mode: "" well-formed; "zero" an empty packet is sent instead; "hdr_more" the header announces Arg more bytes
	// than are sent; "hdr_less" Arg fewer; "badseq" sequence id Arg; "max" the header announces 0xffffff bytes.
	Mode string `json:"mode,omitempty"`
	Arg  int    `json:"arg,omitempty"`
}

// hsInput is a handshake response (HandshakeResponse41 layout) with mutations.
type hsInput struct {
	Caps       uint32   `json:"caps"`
	MaxPacket  uint32   `json:"max_packet"`
	Collation  byte     `json:"collation"`
	Reserved   int      `json:"reserved"`  // number of filler bytes written (23 when well-formed)
	UserKind   int      `json:"user_kind"` // 0 the fixture's user, 1 unknown user, 2 empty, 3 User bytes
	User       []byte   `json:"user,omitempty"`
	UserNul    bool     `json:"user_nul"`
	AuthKind   int      `json:"auth_kind"` // 0 valid native scramble, 1 wrong 20 bytes, 2 empty, 3 Auth bytes
	Auth       []byte   `json:"auth,omitempty"`
	AuthPrefix int      `json:"auth_prefix"` // 0 one length byte, 1 lenenc length, 2 fe+8xff, 3 fb, 4 fc+too long, 5 length+5, 6 fe+2^63, 7 ff, 8 none (NUL terminated)
	WriteDB    bool     `json:"write_db"`
	DB         []byte   `json:"db,omitempty"`
	DBNul      bool     `json:"db_nul"`
	WritePlug  bool     `json:"write_plugin"`
	Plugin     []byte   `json:"plugin,omitempty"`
	PluginNul  bool     `json:"plugin_nul"`
	Tail       []byte   `json:"tail,omitempty"`
	Trunc      int      `json:"trunc"` // -1: none; else the payload is cut to this many bytes
	Frame      frameMut `json:"frame"`
	SwitchKind int      `json:"switch_kind"` // packet sent blindly after the response (read by the proxy if it asks for an auth switch): 0 valid scramble, 1 none, 2 empty packet, 3 Switch bytes
	Switch     []byte   `json:"switch,omitempty"`
	Mutated    bool     `json:"mutated"` // set by the generator when any field deviates from the well-formed choice
}

type paramInput struct {
	Type byte   `json:"type"`
	Flag byte   `json:"flag"`
	Null bool   `json:"null"`
	Val  []byte `json:"val,omitempty"` // value bytes as they go on the wire (valid or hostile encoding)
}

// cmdInput is one command packet.
type cmdInput struct {
	Cmd  byte   `json:"cmd"`
	Text []byte `json:"text,omitempty"` // COM_QUERY / COM_STMT_PREPARE / COM_INIT_DB text, COM_FIELD_LIST table
	// COM_FIELD_LIST
	Wildcard []byte `json:"wildcard,omitempty"`
	NoNul    bool   `json:"no_nul,omitempty"`
	// statement id: IDMode 0 = the id the proxy gave to the StmtRef-th statement prepared earlier in this case
	// (ids are assigned 0,1,2,... per session), 1 = AbsID
	IDMode  int    `json:"id_mode,omitempty"`
	StmtRef int    `json:"stmt_ref,omitempty"`
	AbsID   uint32 `json:"abs_id,omitempty"`
	// COM_STMT_EXECUTE
	Flags      byte         `json:"flags,omitempty"`
	Iter       uint32       `json:"iter,omitempty"`
	BitmapKind int          `json:"bitmap_kind,omitempty"` // 0 computed from Params, 1 one byte short, 2 one byte long, 3 all ones, 4 missing (and nothing after it)
	BoundFlag  byte         `json:"bound_flag,omitempty"`
	Params     []paramInput `json:"params,omitempty"`
	// COM_STMT_SEND_LONG_DATA
	ParamID uint16 `json:"param_id,omitempty"`
	Data    []byte `json:"data,omitempty"`
	// unknown commands
	Raw []byte `json:"raw,omitempty"`

	Trunc   int      `json:"trunc"` // -1: none; else the payload (command byte included) is cut to this many bytes
	Frame   frameMut `json:"frame"`
	Mutated bool     `json:"mutated"`
}

type c38Case struct {
	// Handshake, when set, replaces the client's handshake response; Cmds are then sent blindly after it.
	// When nil the client authenticates normally and sends Cmds.
	Handshake *hsInput   `json:"handshake,omitempty"`
	Cmds      []cmdInput `json:"cmds"`
	// ConnDB (command phase): the database named in the well-formed handshake response: 0 the namespace's
	// database, 1 a database the namespace does not know ("c38_unknown_db"), 2 none.
	ConnDB int `json:"conn_db,omitempty"`
}

// ---- source of choices ----

type src interface {
	pick(label string, n int) int       // 0..n-1, 0 is the plain choice
	mutate(label string, pct int) bool  // true with probability ~pct%
	bytes(label string, max int) []byte // arbitrary bytes, length 0..max
	u32(label string) uint32
}

type rapidSrc struct{ t *rapid.T }

func (r rapidSrc) pick(label string, n int) int { return rapid.IntRange(0, n-1).Draw(r.t, label) }
func (r rapidSrc) mutate(label string, pct int) bool {
	return rapid.IntRange(0, 99).Draw(r.t, label) >= 100-pct
}
func (r rapidSrc) bytes(label string, max int) []byte {
	return rapid.SliceOfN(rapid.Byte(), 0, max).Draw(r.t, label)
}
func (r rapidSrc) u32(label string) uint32 { return rapid.Uint32().Draw(r.t, label) }

// byteSrc decodes a native fuzz input; exhausted input yields zeros (the plain choices).
type byteSrc struct {
	b   []byte
	pos int
}

func (s *byteSrc) next() byte {
	if s.pos >= len(s.b) {
		return 0
	}
	v := s.b[s.pos]
	s.pos++
	return v
}
func (s *byteSrc) pick(_ string, n int) int { return int(s.next()) % n }
func (s *byteSrc) mutate(_ string, pct int) bool {
	return int(s.next())%100 >= 100-pct
}
func (s *byteSrc) bytes(_ string, max int) []byte {
	n := int(s.next())
	if max > 255 && n >= 250 {
		n = int(s.next())<<8 | int(s.next())
	}
	if n > max {
		n = max
	}
	out := make([]byte, n)
	for i := range out {
		out[i] = s.next()
	}
	return out
}
func (s *byteSrc) u32(_ string) uint32 {
	return uint32(s.next()) | uint32(s.next())<<8 | uint32(s.next())<<16 | uint32(s.next())<<24
}

// recSrc makes pseudo-random choices and records them in the byte format byteSrc decodes, so that a case found
// by the structured generator can be handed to the native fuzzer as a seed input.
type recSrc struct {
	x   uint64
	rec []byte
}

func (r *recSrc) rnd() uint64 {
	r.x ^= r.x << 13
	r.x ^= r.x >> 7
	r.x ^= r.x << 17
	return r.x
}
func (r *recSrc) pick(_ string, n int) int {
	if n > 256 {
		n = 256
	}
	v := int(r.rnd() % uint64(n))
	r.rec = append(r.rec, byte(v))
	return v
}
func (r *recSrc) mutate(_ string, pct int) bool {
	if int(r.rnd()%100) < pct {
		r.rec = append(r.rec, 99)
		return true
	}
	r.rec = append(r.rec, 0)
	return false
}
func (r *recSrc) bytes(_ string, max int) []byte {
	n := int(r.rnd() % 24)
	if n > max {
		n = max
	}
	r.rec = append(r.rec, byte(n))
	out := make([]byte, n)
	for i := range out {
		out[i] = byte(r.rnd())
		r.rec = append(r.rec, out[i])
	}
	return out
}
func (r *recSrc) u32(_ string) uint32 {
	v := uint32(r.rnd())
	r.rec = append(r.rec, byte(v), byte(v>>8), byte(v>>16), byte(v>>24))
	return v
}

// ---- protocol constants (from the protocol description) ----

const (
	capLongPassword  = 0x00000001
	capLongFlag      = 0x00000004
	capConnectWithDB = 0x00000008
	capSSL           = 0x00000800
	capProtocol41    = 0x00000200
	capTransactions  = 0x00002000
	capSecureConn    = 0x00008000
	capMultiStmts    = 0x00010000
	capMultiResults  = 0x00020000
	capPluginAuth    = 0x00080000
	capConnectAttrs  = 0x00100000
	capAuthLenenc    = 0x00200000

	comQuit         = 0x01
	comInitDB       = 0x02
	comQuery        = 0x03
	comFieldList    = 0x04
	comPing         = 0x0e
	comStmtPrepare  = 0x16
	comStmtExecute  = 0x17
	comStmtLongData = 0x18
	comStmtClose    = 0x19
	comStmtReset    = 0x1a
	comSetOption    = 0x1b
)

var hostile8 = []byte{0xfe, 0xff, 0xff, 0xff, 0xff, 0xff, 0xff, 0xff, 0xff}

func long(b byte, n int) []byte {
	out := make([]byte, n)
	for i := range out {
		out[i] = b
	}
	return out
}

// ---- handshake generator ----

func genHS(s src) *hsInput {
	h := &hsInput{Trunc: -1}
	h.Caps = capLongPassword | capLongFlag | capProtocol41 | capTransactions | capSecureConn | capMultiResults
	toggles := []struct {
		name string
		bit  uint32
		pct  int
	}{{"no41", capProtocol41, 6}, {"nosecure", capSecureConn, 25}, {"lenenc", capAuthLenenc, 30}, {"withdb", capConnectWithDB, 40},
		{"plugin", capPluginAuth, 45}, {"multi", capMultiStmts, 15}, {"attrs", capConnectAttrs, 15}, {"ssl", capSSL, 5}}
	for _, tg := range toggles {
		if s.mutate("cap_"+tg.name, tg.pct) {
			h.Caps ^= tg.bit
			if tg.bit == capProtocol41 || tg.bit == capSSL {
				h.Mutated = true
			}
		}
	}
	if s.mutate("caps_raw", 4) {
		h.Caps = s.u32("caps_rawv")
		h.Mutated = true
	}
	h.MaxPacket = []uint32{1 << 24, 0, 0xffffffff}[s.pick("maxpacket", 3)]
	h.Collation = []byte{45, 33, 8, 63, 0, 255, 200}[s.pick("collation", 7)]
	if h.Collation == 0 || h.Collation >= 200 {
		h.Mutated = true
	}
	h.Reserved = []int{23, 23, 23, 0, 5, 22, 24}[s.pick("reserved", 7)]
	if h.Reserved != 23 {
		h.Mutated = true
	}
	h.UserKind = []int{0, 0, 0, 1, 2, 3}[s.pick("user_kind", 6)]
	if h.UserKind == 3 {
		if s.pick("user_long", 4) == 0 {
			h.User = long('u', 300)
		} else {
			h.User = s.bytes("user", 40)
		}
	}
	h.UserNul = !s.mutate("user_nonul", 10)
	h.AuthKind = []int{0, 0, 0, 1, 2, 3, 3}[s.pick("auth_kind", 7)]
	if h.AuthKind == 3 {
		switch s.pick("auth_len", 4) {
		case 0:
			h.Auth = long(0x5a, 32)
		case 1:
			h.Auth = long(0x5a, 255)
		default:
			h.Auth = s.bytes("auth", 40)
		}
	}
	h.AuthPrefix = []int{0, 0, 0, 1, 2, 3, 4, 5, 6, 7, 8}[s.pick("auth_prefix", 11)]
	if h.AuthPrefix >= 2 {
		h.Mutated = true
	}
	h.WriteDB = h.Caps&capConnectWithDB != 0
	if s.mutate("db_flip", 12) {
		h.WriteDB = !h.WriteDB
		h.Mutated = true
	}
	switch s.pick("db", 5) {
	case 0, 1:
		h.DB = []byte("db")
	case 2:
		h.DB = []byte("nodb")
	case 3:
		h.DB = nil
	default:
		h.DB = s.bytes("dbv", 70)
	}
	h.DBNul = !s.mutate("db_nonul", 12)
	h.WritePlug = h.Caps&capPluginAuth != 0
	if s.mutate("plugin_flip", 10) {
		h.WritePlug = !h.WritePlug
		h.Mutated = true
	}
	switch s.pick("plugin", 6) {
	case 0, 1:
		h.Plugin = []byte("mysql_native_password")
	case 2:
		h.Plugin = []byte("caching_sha2_password")
	case 3:
		h.Plugin = nil
	case 4:
		h.Plugin = long('p', 70000)
	default:
		h.Plugin = s.bytes("pluginv", 30)
	}
	h.PluginNul = !s.mutate("plugin_nonul", 15)
	switch s.pick("tail", 4) {
	case 1:
		h.Tail = []byte{0x0c, 0x03, '_', 'o', 's', 0x05, 'L', 'i', 'n', 'u', 'x'} // connection attributes
	case 2:
		h.Tail = s.bytes("tailv", 40)
	case 3:
		h.Tail = hostile8
	}
	if s.mutate("trunc", 35) {
		h.Mutated = true
		cuts := []int{0, 1, 3, 4, 5, 8, 9, 10, 20, 31, 32, 33, 34, 36, 40, 56}
		k := s.pick("trunc_at", len(cuts)+1)
		if k < len(cuts) {
			h.Trunc = cuts[k]
		} else {
			h.Trunc = int(s.u32("trunc_v") % 80)
		}
	}
	h.Frame = genFrame(s, 15, &h.Mutated)
	h.SwitchKind = []int{0, 0, 1, 2, 3}[s.pick("switch_kind", 5)]
	if h.SwitchKind == 3 {
		h.Switch = s.bytes("switch", 40)
	}
	if !h.UserNul || !h.DBNul || !h.PluginNul || h.UserKind != 0 || h.AuthKind != 0 {
		h.Mutated = true
	}
	return h
}

func genFrame(s src, pct int, mutated *bool) frameMut {
	if !s.mutate("frame", pct) {
		return frameMut{}
	}
	*mutated = true
	switch s.pick("frame_mode", 5) {
	case 0:
		return frameMut{Mode: "zero"}
	case 1:
		return frameMut{Mode: "hdr_more", Arg: 1 + s.pick("frame_more", 300)}
	case 2:
		return frameMut{Mode: "hdr_less", Arg: 1 + s.pick("frame_less", 8)}
	case 3:
		return frameMut{Mode: "badseq", Arg: 1 + s.pick("frame_seq", 255)}
	}
	if s.pick("frame_max", 8) == 0 { // rare: makes the proxy allocate 16 MiB
		return frameMut{Mode: "max"}
	}
	return frameMut{Mode: "hdr_more", Arg: 70000}
}

// ---- command generator ----

var queryTexts = []string{
	"select 1", "select * from t_ok where id = 1", "insert into t_ok (id, name) values (1, 'x')", "begin", "commit", "rollback",
	"set names utf8", "set autocommit = 0", "set autocommit = 1", "use db", "show databases", "show variables like 'x'",
	"select * from tbl_s where id = 5", "select * from tbl_s", "select id, count(*) from tbl_s group by id order by id limit 2",
	"insert into tbl_s (id, name) values (3, 'a'), (4, 'b')", "update tbl_s set name = 'z' where id in (1, 2, 3)", "delete from tbl_s",
	"/*!40101 select 1 */", "/* master */ select 2", "", ";", ";;", "select '", "select \"", "select `", "/*", "-- ", "\x00", "\xff\xfe\x00",
	"select last_insert_id()", "explain select * from tbl_s where id = 1", "select 1; select 2", "kill 1", "kill query 99999",
	"lock tables t_ok read", "unlock tables", "savepoint a", "rollback to a", "release savepoint a", "select * from", "select * from tbl_s where id =",
	"use", "use `", "use c38_unknown_db", "use nodb; select 1", "set", "set @a", "set @@session.sql_mode = ", "show", "select @@version_comment limit 1", "select database()",
	"select * from tbl_s where id = 18446744073709551616", "select * from tbl_s where id = -1", "select * from tbl_s where id = 'x'",
	"select * from tbl_s where id in ()", "insert into tbl_s values ()", "insert into tbl_s (id) values (null)", "replace into tbl_s (name) values ('q')",
	"select nextval for seq", "select * from db.tbl_s where tbl_s.id = 1", "select * from nodb.t where id = 1", "desc tbl_s", "truncate table tbl_s",
}

// prepare texts with the number of parameter markers the proxy will count
var prepareTexts = []struct {
	sql string
	n   int
}{
	{"select * from t_ok where id = ?", 1}, {"select ?, ?, ?", 3}, {"insert into tbl_s (id, name) values (?, ?)", 2},
	{"select * from tbl_s where id in (?,?,?,?,?,?,?,?,?)", 9}, {"select 1", 0}, {"select * from tbl_s where id = ? and name = ?", 2},
	{"update tbl_s set name = ? where id = ?", 2}, {"select '?", 0}, {"?", 1}, {"", 0}, {"select * from t_ok where name = '?' and id = ?", 1},
	{"select ? from tbl_s limit ?", 2}, {"set names ?", 1}, {"begin", 0}, {"use ?", 1},
	{"select ?,?,?,?,?,?,?,?,?,?,?,?,?,?,?,?,?", 17},
}

var validTypes = []byte{1, 2, 3, 8, 9, 13, 4, 5, 10, 14, 11, 7, 12, 253, 254, 15, 252, 249, 250, 251, 246, 0, 6, 16, 245, 247, 248, 255}
var badTypes = []byte{0x11, 0x14, 0x20, 0x7f, 0xc8, 0xf0, 0xf4}

// encodeValue returns wire bytes for a parameter of type tp: the valid encoding (kind 0) or a hostile one.
func encodeValue(s src, tp byte) ([]byte, bool) {
	hostile := s.mutate("val_hostile", 35)
	fixed := map[byte]int{1: 1, 2: 2, 13: 2, 3: 4, 9: 4, 4: 4, 8: 8, 5: 8}
	if n, ok := fixed[tp]; ok {
		v := make([]byte, 8)
		binary.LittleEndian.PutUint32(v, s.u32("val_fixed"))
		binary.LittleEndian.PutUint32(v[4:], []uint32{0, 0xffffffff, 0x7fffffff, 0x80000000}[s.pick("val_hi", 4)])
		v = v[:n]
		if hostile {
			return v[:s.pick("val_fixed_cut", n)], true
		}
		return v, false
	}
	switch tp {
	case 10, 14, 12, 7, 11: // date, newdate, datetime, timestamp, time: length byte + fields
		full := []byte{0xe8, 0x07, 12, 31, 23, 59, 58, 0x40, 0x42, 0x0f, 0x00}
		if tp == 11 {
			full = []byte{1, 2, 0, 0, 0, 23, 59, 58, 0x40, 0x42, 0x0f, 0x00}
		}
		if !hostile {
			var n int
			if tp == 11 {
				n = []int{0, 8, 12}[s.pick("val_tlen", 3)]
			} else {
				n = []int{0, 4, 7, 11}[s.pick("val_dlen", 4)]
			}
			return append([]byte{byte(n)}, full[:n]...), false
		}
		// announced length and available bytes disagree, or a length the format does not know
		n := []int{4, 7, 11, 8, 12, 1, 2, 5, 13, 200, 255}[s.pick("val_hlen", 11)]
		have := s.pick("val_have", 13)
		if have > len(full) {
			have = len(full)
		}
		return append([]byte{byte(n)}, full[:have]...), true
	case 6: // NULL type: no value
		return nil, false
	}
	// length-encoded string types (and anything unknown)
	body := s.bytes("val_str", 24)
	if !hostile {
		if s.pick("val_big", 12) == 11 {
			body = long('v', 300) // 3-byte length prefix
			return append([]byte{0xfc, byte(len(body)), byte(len(body) >> 8)}, body...), false
		}
		return append([]byte{byte(len(body))}, body...), false
	}
	switch s.pick("val_hstr", 7) {
	case 0:
		return append(append([]byte{}, hostile8...), body...), true
	case 1:
		return append([]byte{0xfc, 0xff, 0xff}, body...), true
	case 2:
		return append([]byte{0xfd, 0xff, 0xff, 0xff}, body...), true
	case 3:
		return []byte{0xfb}, true
	case 4:
		return append([]byte{0xfe, 0, 0, 0, 0, 0, 0, 0, 0x80}, body...), true
	case 5:
		return append([]byte{byte(len(body) + 5)}, body...), true
	}
	return []byte{0xfc}, true
}

func genID(s src, c *cmdInput, nprepared int) {
	switch s.pick("id_mode", 8) {
	case 0, 1, 2, 3, 4:
		c.IDMode = 0
		if nprepared > 0 {
			c.StmtRef = s.pick("stmt_ref", nprepared)
		} else {
			c.Mutated = true // refers to a statement that does not exist
		}
	default:
		c.IDMode = 1
		c.Mutated = true
		c.AbsID = []uint32{0, 1, 2, 7, 0x7fffffff, 0x80000000, 0xffffffff, 0xfffffffe}[s.pick("abs_id", 8)]
		if s.pick("abs_rand", 4) == 0 {
			c.AbsID = s.u32("abs_idv")
		}
	}
}

// Statement texts that END INSIDE a lexical construct: a scanner that stops advancing there spins forever.
var openBases = []struct {
	sql string
	n   int // parameter markers
}{
	{"select 1 ", 0}, {"select ? , ? from t_ok where id = ? ", 3}, {"select * from tbl_s where id = ? and name = ", 1},
	{"insert into tbl_s (id, name) values (?, ?) ", 2}, {"select * from tbl_s where id in (1, 2) ", 0}, {"", 0}, {"update t_ok set name = ? where id = 1 ", 1},
}
var openEndings = []string{"/* abc", "/*", "/* abc *", "'abc", "'", "'abc\\'", "\"abc", "\"", "`abc", "`", "\\", "abc\\", "/*! 40101 select 2", "/*!", "/*!50000",
	"-- abc", "--", "-- ", "# abc", "#", "x'ab", "0x", "b'01", "@`a", "@'a", "N'abc", "_utf8'abc", "/", "-", "*/", "/*+ hint", "'a''", "\"a\"\"", "`a``", "1e", "1.", "$"}

// genOpenEnded returns a statement text ending inside a comment, string, quoted identifier, escape or
// version comment, optionally behind a complete first statement (multi-statement mode), and its marker count.
func genOpenEnded(s src) ([]byte, int) {
	b := openBases[s.pick("open_base", len(openBases))]
	text, n := b.sql, b.n
	switch s.pick("open_multi", 4) {
	case 1:
		text = "select 1; " + text
	case 2:
		text = "select ?; " + text
		n++
	}
	text += openEndings[s.pick("open_end", len(openEndings))]
	if s.pick("open_tail_semi", 6) == 5 {
		text += ";"
	}
	return []byte(text), n
}

// registers says whether the proxy will accept a COM_STMT_PREPARE of this text and give it the next statement
// id: its marker counter refuses a text in which a string or a quoted identifier is left open (comments are
// skipped, a doubled or backslash-escaped quote does not close). Only used to keep the statement references
// of the generated EXECUTE commands aligned; a wrong guess merely turns a reference into an unknown id.
func registers(text []byte) bool {
	n := len(text)
	for i := 0; i < n; {
		ch := text[i]
		switch {
		case ch == '\'' || ch == '"' || ch == '`':
			closed := false
			i++
			for i < n {
				if text[i] == '\\' && ch != '`' {
					i += 2
					continue
				}
				if text[i] == ch {
					if i+1 < n && text[i+1] == ch {
						i += 2
						continue
					}
					closed = true
					i++
					break
				}
				i++
			}
			if !closed {
				return false
			}
		case ch == '#', ch == '-' && i+1 < n && text[i+1] == '-' && (i+2 == n || text[i+2] <= ' '):
			for i < n && text[i] != '\n' {
				i++
			}
		case ch == '/' && i+1 < n && text[i+1] == '*' && !(i+2 < n && text[i+2] == '!'):
			j := bytes.Index(text[i+2:], []byte("*/"))
			if j < 0 {
				return true
			}
			i += 2 + j + 2
		default:
			i++
		}
	}
	return true
}

// genExecOf returns a well-formed COM_STMT_EXECUTE of the ref-th prepared statement with n parameters.
func genExecOf(s src, ref, n int) cmdInput {
	c := cmdInput{Cmd: comStmtExecute, Trunc: -1, IDMode: 0, StmtRef: ref, Iter: 1, BoundFlag: 1}
	for i := 0; i < n; i++ {
		if s.pick("exec_ptype", 2) == 0 {
			c.Params = append(c.Params, paramInput{Type: 8, Val: []byte{byte(1 + i), 0, 0, 0, 0, 0, 0, 0}})
		} else {
			c.Params = append(c.Params, paramInput{Type: 253, Val: []byte{3, 'a', ';', '\''}})
		}
	}
	return c
}

// genCmd appends one command; prepared holds the marker counts of the statements prepared so far in the case.
func genCmd(s src, prepared *[]int) cmdInput { return genCmdKind(s, prepared, -1) }

// genCmdKind is genCmd with the command kind given (force >= 0) instead of drawn.
func genCmdKind(s src, prepared *[]int, force int) cmdInput {
	c := cmdInput{Trunc: -1}
	kinds := []byte{comQuery, comQuery, comQuery, comStmtPrepare, comStmtPrepare, comStmtPrepare, comStmtExecute, comStmtExecute, comStmtExecute, comStmtExecute,
		comStmtLongData, comStmtLongData, comStmtReset, comStmtClose, comFieldList, comFieldList, comInitDB, 0 /*unknown*/, comPing, comSetOption}
	c.Cmd = kinds[s.pick("cmd", len(kinds))]
	if force >= 0 {
		c.Cmd = byte(force)
	}
	nparams := 0
	switch c.Cmd {
	case comQuery:
		k := s.pick("query_text", len(queryTexts)+2+len(queryTexts)/4)
		if k >= len(queryTexts)+2 {
			c.Text, _ = genOpenEnded(s)
			c.Mutated = true
		} else if k < len(queryTexts) {
			c.Text = []byte(queryTexts[k])
		} else if k == len(queryTexts) {
			c.Text = s.bytes("query_bytes", 60)
			c.Mutated = true
		} else {
			c.Text = append([]byte("select '"), long('x', 70000)...) // unterminated 70 KB literal
			c.Mutated = true
		}
	case comStmtPrepare:
		k := s.pick("prepare_text", len(prepareTexts)+1+len(prepareTexts)/2)
		if k > len(prepareTexts) {
			var n int
			c.Text, n = genOpenEnded(s)
			c.Mutated = true
			if registers(c.Text) {
				*prepared = append(*prepared, n)
			}
		} else if k < len(prepareTexts) {
			c.Text = []byte(prepareTexts[k].sql)
			if registers(c.Text) {
				*prepared = append(*prepared, prepareTexts[k].n)
			}
		} else {
			c.Text = s.bytes("prepare_bytes", 60)
			c.Mutated = true
			n := 0
			for _, b := range c.Text {
				if b == '?' {
					n++
				}
			}
			if registers(c.Text) {
				*prepared = append(*prepared, n)
			}
		}
	case comStmtExecute:
		genID(s, &c, len(*prepared))
		if c.IDMode == 0 && len(*prepared) > 0 {
			nparams = (*prepared)[c.StmtRef]
		}
		switch s.pick("nparams_adj", 8) {
		case 5:
			nparams++
			c.Mutated = true
		case 6:
			if nparams > 0 {
				nparams--
				c.Mutated = true
			}
		case 7:
			nparams = s.pick("nparams_any", 20)
			c.Mutated = true
		}
		c.Flags = []byte{0, 0, 0, 0, 1, 2, 4, 0xff}[s.pick("flags", 8)]
		c.Iter = []uint32{1, 1, 1, 0, 0xffffffff}[s.pick("iter", 5)]
		c.BitmapKind = []int{0, 0, 0, 0, 0, 1, 2, 3, 4}[s.pick("bitmap_kind", 9)]
		c.BoundFlag = []byte{1, 1, 1, 1, 0, 0, 2, 0xff}[s.pick("bound_flag", 8)]
		if c.Flags != 0 || c.BitmapKind != 0 || c.BoundFlag > 1 {
			c.Mutated = true
		}
		for i := 0; i < nparams; i++ {
			var p paramInput
			if s.mutate("bad_type", 12) {
				p.Type = badTypes[s.pick("bad_typev", len(badTypes))]
				c.Mutated = true
			} else {
				p.Type = validTypes[s.pick("type", len(validTypes))]
			}
			p.Flag = []byte{0, 0, 0x80, 0x80, 0xff, 0x01}[s.pick("pflag", 6)]
			p.Null = s.mutate("null", 12)
			if !p.Null {
				var h bool
				p.Val, h = encodeValue(s, p.Type)
				if h {
					c.Mutated = true
				}
			}
			c.Params = append(c.Params, p)
		}
	case comStmtLongData:
		genID(s, &c, len(*prepared))
		if c.IDMode == 0 && len(*prepared) > 0 {
			nparams = (*prepared)[c.StmtRef]
		}
		switch s.pick("param_id", 6) {
		case 0, 1, 2:
			if nparams > 0 {
				c.ParamID = uint16(s.pick("param_idv", nparams))
			} else {
				c.Mutated = true
			}
		case 3:
			c.ParamID = uint16(nparams)
			c.Mutated = true
		case 4:
			c.ParamID = 0xffff
			c.Mutated = true
		default:
			c.ParamID = uint16(s.u32("param_idr"))
			c.Mutated = true
		}
		switch s.pick("long_data", 5) {
		case 0:
			c.Data = nil
		case 1:
			c.Data = long('L', 70000)
		default:
			c.Data = s.bytes("long_datav", 40)
		}
	case comStmtReset, comStmtClose:
		genID(s, &c, len(*prepared))
	case comFieldList:
		switch s.pick("fl_table", 6) {
		case 0, 1:
			c.Text = []byte("t_ok")
		case 2:
			c.Text = []byte("tbl_s")
		case 3:
			c.Text = nil
		case 4:
			c.Text = long('t', 300)
		default:
			c.Text = s.bytes("fl_tablev", 30)
		}
		c.Wildcard = [][]byte{nil, []byte("%"), []byte("id"), hostile8}[s.pick("fl_wild", 4)]
		c.NoNul = s.mutate("fl_nonul", 30)
		if c.NoNul {
			c.Mutated = true
		}
	case comInitDB:
		switch s.pick("initdb", 6) {
		case 0, 1:
			c.Text = []byte("db")
		case 2:
			c.Text = nil
			c.Mutated = true
		case 3:
			c.Text = []byte("nodb")
		case 4:
			c.Text = []byte("INFORMATION_SCHEMA")
		default:
			c.Text = s.bytes("initdbv", 300)
			c.Mutated = true
		}
	case 0:
		c.Cmd = []byte{0x00, 0x05, 0x06, 0x07, 0x08, 0x09, 0x0a, 0x0c, 0x0d, 0x11, 0x12, 0x1c, 0x1d, 0x1e, 0x1f, 0x20, 0x7f, 0xfe, 0xff, comQuit}[s.pick("unknown_cmd", 20)]
		c.Raw = s.bytes("raw", 24)
		c.Mutated = c.Cmd != comQuit
	case comPing, comSetOption:
		c.Raw = [][]byte{nil, {0, 0}, {1, 0}, hostile8}[s.pick("raw_small", 4)]
	}
	if s.mutate("trunc", 25) {
		c.Mutated = true
		cuts := []int{0, 1, 2, 3, 4, 5, 6, 8, 9, 10, 11, 12, 14}
		k := s.pick("trunc_at", len(cuts)+1)
		if k < len(cuts) {
			c.Trunc = cuts[k]
		} else {
			c.Trunc = int(s.u32("trunc_v") % 64)
		}
	}
	c.Frame = genFrame(s, 8, &c.Mutated)
	return c
}

func genCase(s src, handshakePhase bool) c38Case {
	var c38 c38Case
	var prepared []int
	ncmd := 1 + s.pick("ncmd", 4)
	if handshakePhase {
		c38.Handshake = genHS(s)
		ncmd = s.pick("ncmd_hs", 3)
	}
	if !handshakePhase {
		c38.ConnDB = []int{0, 0, 0, 1, 1, 2}[s.pick("conn_db", 6)]
	}
	for i := 0; i < ncmd; i++ {
		before := len(prepared)
		force := -1
		if c38.ConnDB != 0 && s.pick("db_sensitive_cmd", 3) != 2 {
			// a session without a usable database: prefer the commands that look the database up
			force = int([]byte{comFieldList, comFieldList, comFieldList, comQuery, comStmtPrepare, comInitDB}[s.pick("db_sensitive_kind", 6)])
		}
		cmd := genCmdKind(s, &prepared, force)
		c38.Cmds = append(c38.Cmds, cmd)
		// a statement prepared from a mutated text is usually executed right away (well-formed EXECUTE):
		// the text reaches the query path of the proxy only then
		if cmd.Cmd == comStmtPrepare && cmd.Mutated && cmd.Trunc < 0 && cmd.Frame.Mode == "" && len(prepared) == before+1 && len(c38.Cmds) < 6 && s.pick("exec_after_prepare", 3) != 2 {
			c38.Cmds = append(c38.Cmds, genExecOf(s, before, prepared[before]))
		}
	}
	if c38.Cmds == nil {
		c38.Cmds = []cmdInput{}
	}
	return c38
}
