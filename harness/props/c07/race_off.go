//go:build verif && !race

package c07

const raceBuild = false
