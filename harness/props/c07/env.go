//go:build verif

package c07

import (
	"fmt"
	"sort"
	"strings"
	"sync"

	"github.com/XiaoMi/Gaea/log"
	"github.com/XiaoMi/Gaea/models"
	"github.com/XiaoMi/Gaea/mysql"
	"github.com/XiaoMi/Gaea/parser"
	"github.com/XiaoMi/Gaea/parser/ast"
	"github.com/XiaoMi/Gaea/proxy/plan"
	"github.com/XiaoMi/Gaea/proxy/router"
	"github.com/XiaoMi/Gaea/proxy/sequence"
	"github.com/XiaoMi/Gaea/util"
)

// ---- quiet logger ----

type nullLogger struct{}

func (nullLogger) SetLevel(name, level string) error                 { return nil }
func (nullLogger) Debug(format string, a ...interface{}) error       { return nil }
func (nullLogger) Trace(format string, a ...interface{}) error       { return nil }
func (nullLogger) Notice(format string, a ...interface{}) error      { return nil }
func (nullLogger) Warn(format string, a ...interface{}) error        { return nil }
func (nullLogger) Fatal(format string, a ...interface{}) error       { return nil }
func (nullLogger) Debugx(id, format string, a ...interface{}) error  { return nil }
func (nullLogger) Tracex(id, format string, a ...interface{}) error  { return nil }
func (nullLogger) Noticex(id, format string, a ...interface{}) error { return nil }
func (nullLogger) Warnx(id, format string, a ...interface{}) error   { return nil }
func (nullLogger) Fatalx(id, format string, a ...interface{}) error  { return nil }
func (nullLogger) Close()                                            {}
func (nullLogger) Dropped(i int) uint64                              { return 0 }

func init() { log.SetGlobalLogger(nullLogger{}) }

// ---- the namespace every workload runs against ----

const (
	dbShard = "db_s" // database with sharded, global and one plain table
	dbMycat = "db_m" // mycat-style logical database
)

var plainDBs = []string{"db_a", "db_b", "db_c"} // databases without any rule

func namespaceConfig() *models.Namespace {
	ns := &models.Namespace{
		Name:          "ns_c07",
		Online:        true,
		AllowedDBS:    map[string]bool{dbShard: true, dbMycat: true, "db_a": true, "db_b": true, "db_c": true},
		DefaultPhyDBS: map[string]string{dbShard: dbShard, dbMycat: "db_m_0", "db_a": "db_a", "db_b": "db_b_phy", "db_c": "db_c"},
		DefaultSlice:  "slice-0",
		Users:         []*models.User{{UserName: "u", Password: "p", Namespace: "ns_c07", RWFlag: models.ReadWrite}},
	}
	for i := 0; i < 2; i++ {
		ns.Slices = append(ns.Slices, &models.Slice{Name: fmt.Sprintf("slice-%d", i), UserName: "root", Password: "root",
			Master: fmt.Sprintf("127.0.0.1:%d", 13306+i), Capacity: 4, MaxCapacity: 8, IdleTimeout: 60})
	}
	both := []string{"slice-0", "slice-1"}
	ns.ShardRules = []*models.Shard{
		{DB: dbShard, Table: "t_hash", Type: models.ShardHash, Key: "id", Locations: []int{2, 2}, Slices: both},
		{DB: dbShard, Table: "t_mod", Type: models.ShardMod, Key: "id", Locations: []int{1, 2}, Slices: both},
		{DB: dbShard, Table: "t_range", Type: models.ShardRange, Key: "id", Locations: []int{2, 2}, Slices: both, TableRowLimit: 100},
		{DB: dbShard, Table: "t_child", Type: models.ShardLinked, Key: "pid", ParentTable: "t_hash"},
		{DB: dbShard, Table: "t_glob", Type: models.ShardGlobal, Locations: []int{2, 2}, Slices: both},
		{DB: dbMycat, Table: "t_mm", Type: models.ShardMycatMod, Key: "id", Locations: []int{2, 2}, Slices: both, Databases: []string{"db_m_[0-3]"}},
		{DB: dbMycat, Table: "t_ml", Type: models.ShardMycatLong, Key: "id", Locations: []int{2, 2}, Slices: both, Databases: []string{"db_m_[0-3]"},
			PartitionCount: "4", PartitionLength: "256"},
		{DB: dbShard, Table: "t_month", Type: models.ShardMonth, Key: "d", Slices: both, DateRange: []string{"202001-202003", "202004-202006"}},
		{DB: dbShard, Table: "t_year", Type: models.ShardYear, Key: "d", Slices: both, DateRange: []string{"2016-2017", "2018-2020"}},
		{DB: dbShard, Table: "t_day", Type: models.ShardDay, Key: "d", Slices: both, DateRange: []string{"20200101-20200105", "20200106-20200110"}},
		{DB: dbShard, Table: "t_hash2", Type: models.ShardHash, Key: "id", Locations: []int{3, 5}, Slices: both},
		{DB: dbMycat, Table: "t_mur1", Type: models.ShardMycatMURMUR, Key: "id", Locations: []int{2, 2}, Slices: both, Databases: []string{"db_m_[0-3]"},
			Seed: "0", VirtualBucketTimes: "160"},
		{DB: dbMycat, Table: "t_mur2", Type: models.ShardMycatMURMUR, Key: "id", Locations: []int{2, 2}, Slices: both, Databases: []string{"db_m_[0-3]"},
			Seed: "7", VirtualBucketTimes: "16"},
		{DB: dbMycat, Table: "t_mur3", Type: models.ShardMycatMURMUR, Key: "name", Locations: []int{1, 1}, Slices: both, Databases: []string{"db_m_[0-1]"},
			Seed: "-3", VirtualBucketTimes: "40"},
		{DB: dbMycat, Table: "t_str", Type: models.ShardMycatString, Key: "name", Locations: []int{2, 2}, Slices: both, Databases: []string{"db_m_[0-3]"},
			PartitionCount: "4", PartitionLength: "256", HashSlice: "0:4"},
		{DB: dbMycat, Table: "t_pad", Type: models.ShardMycatPaddingMod, Key: "id", Locations: []int{2, 2}, Slices: both, Databases: []string{"db_m_[0-3]"},
			PadFrom: "0", PadLength: "18", ModBegin: "10", ModEnd: "16"},
	}
	return ns
}

type env struct {
	router *router.Router
	seqs   *sequence.SequenceManager
	phyDBs map[string]string
}

func newEnv() (*env, error) {
	ns := namespaceConfig()
	if err := ns.Verify(); err != nil {
		return nil, fmt.Errorf("namespace.Verify: %v", err)
	}
	rt, err := router.NewRouter(ns)
	if err != nil {
		return nil, fmt.Errorf("router.NewRouter: %v", err)
	}
	return &env{router: rt, seqs: sequence.NewSequenceManager(), phyDBs: ns.DefaultPhyDBS}, nil
}

// ---- one statement, planned the way a session plans it ----

type op struct {
	Kind  string `json:"kind"`  // query | fieldlist
	DB    string `json:"db"`    // the session's current database
	SQL   string `json:"sql"`   // query text
	Table string `json:"table"` // fieldlist: table name as the client sends it
	// Class: shard | default (resolves to the default rule) | global_read | global_write | mixed
	Class string `json:"class"`
	// RuleDB: for Class default, the database GetRule is asked about
	RuleDB string `json:"rule_db"`
}

// recorder is the plan.Executor that only notes where statements are sent.
type recorder struct {
	stmts []string
}

func (r *recorder) ExecuteSQL(ctx *util.RequestContext, slice, db, sql string) (*mysql.Result, error) {
	r.stmts = append(r.stmts, slice+"|"+db+"|"+sql)
	return &mysql.Result{Resultset: &mysql.Resultset{}}, nil
}

var errStop = fmt.Errorf("c07: routing recorded")

func (r *recorder) ExecuteSQLs(ctx *util.RequestContext, sqls map[string]map[string][]string) ([]*mysql.Result, error) {
	for s, m := range sqls {
		for d, l := range m {
			for i, q := range l {
				r.stmts = append(r.stmts, fmt.Sprintf("%s|%s|#%d %s", s, d, i, q))
			}
		}
	}
	return nil, errStop // the merge of backend results is not part of this property
}
func (r *recorder) SetLastInsertID(uint64)  {}
func (r *recorder) GetLastInsertID() uint64 { return 0 }
func (r *recorder) HandleSet(*util.RequestContext, string, *ast.SetStmt) (*mysql.Result, error) {
	return &mysql.Result{}, nil
}

const (
	mycatHint       = "/* !mycat:" // proxy/server/executor.go
	lastInsetIDMark = "SELECTLAST_INSERT_ID()"
)

// getPlan mirrors SessionExecutor.getPlan / preBuildUnshardPlan / checkMyCatHintPlan
// (proxy/server/executor_handle.go) on the exported planner API.
func getPlan(e *env, db, sql string, checkHint bool) (plan.Plan, string, error) {
	tokens := parser.Tokenize(sql)
	fast := len(tokens) > 0 && parser.Preview(sql) != parser.StmtComment
	if fast && len(tokens) > 1 && len(tokens[1]) > 13 && len(tokens[1]) < 17 {
		if util.HasUpperPrefix(strings.Join(tokens, ""), lastInsetIDMark) {
			fast = false
		}
	}
	if fast {
		if tokenID, ok := mysql.ParseTokenMap[strings.ToLower(tokens[0])]; ok {
			ruleDB, unshard, known := db, true, true
			switch tokenID {
			case mysql.TkIdSelect, mysql.TkIdDelete:
				ruleDB, unshard = plan.CheckUnshardBase(tokenID, tokens, e.router, db)
			case mysql.TkIdReplace, mysql.TkIdInsert:
				ruleDB, unshard = plan.CheckUnshardInsert(tokens, e.router, db)
			case mysql.TkIdUpdate:
				ruleDB, unshard = plan.CheckUnshardUpdate(tokens, e.router, db)
			default:
				known = false
			}
			if known && unshard {
				if p, err := plan.PreCreateUnshardPlan(sql, e.phyDBs, ruleDB); err == nil {
					return p, "fast", nil
				}
			}
		}
	}
	n, err := parser.New().ParseOneStmt(sql, "", "")
	if err != nil {
		return nil, "", fmt.Errorf("parse error: %v", err)
	}
	var hintPlan plan.Plan
	path := "full"
	if checkHint {
		_, comments := parser.SplitMarginComments(sql)
		if strings.HasPrefix(strings.TrimSpace(comments.Trailing), mycatHint) {
			if parts := strings.Split(comments.Trailing, mycatHint+"sql="); len(parts) >= 2 {
				hintSQL := strings.TrimSpace(strings.TrimRight(parts[1], "*/"))
				if hintSQL != "" {
					// an error of the hint plan is only logged by the session
					if hp, _, herr := getPlan(e, db, hintSQL, false); herr == nil {
						hintPlan = hp
						path = "full+hint"
					}
				}
			}
		}
	}
	p, err := plan.BuildPlan(n, e.phyDBs, db, sql, e.router, e.seqs, hintPlan)
	if err != nil {
		return nil, "", fmt.Errorf("build plan error: %v", err)
	}
	return p, path, nil
}

// planOne returns the canonical description of what the session would do.
func planOne(e *env, o op) (res string) {
	defer func() {
		if r := recover(); r != nil {
			res = fmt.Sprintf("panic: %v", r)
		}
	}()
	if o.Kind == "fieldlist" {
		// SessionExecutor.handleFieldList
		return "fieldlist slice=" + e.router.GetRule(o.DB, o.Table).GetSlice(0)
	}
	p, path, err := getPlan(e, o.DB, o.SQL, true)
	if err != nil {
		return "error: " + err.Error()
	}
	rec := &recorder{}
	reqCtx := util.NewRequestContext()
	reqCtx.SetDefaultSlice("slice-0")
	_, xerr := p.ExecuteIn(reqCtx, rec)
	status := ""
	if xerr != nil && !strings.Contains(xerr.Error(), errStop.Error()) {
		status = fmt.Sprintf(" execute error: %v", xerr)
	}
	st := rec.stmts
	if o.Class == "global_read" {
		// a read of a global table may go to any copy: compare up to the slice
		for i := range st {
			st[i] = "*" + st[i][strings.Index(st[i], "|"):]
		}
	}
	sort.Strings(st)
	return fmt.Sprintf("%s %T%s\n%s", path, p, status, strings.Join(st, "\n"))
}

// ---- the router's observable routing table ----

// snapshot renders everything the exported Rule API shows about every rule of
// the router, plus where a fixed set of keys is placed.
func snapshot(rt *router.Router) string {
	var lines []string
	one := func(name string, r router.Rule) {
		var sb strings.Builder
		fl := Catch(func() string { return fmt.Sprintf("first=%d last=%d", r.GetFirstTableIndex(), r.GetLastTableIndex()) }) // a rule without sub-tables panics here
		fmt.Fprintf(&sb, "%s type=%s db=%s table=%s col=%s linked=%v slices=%v %s idx=%v", name, r.GetType(), r.GetDB(), r.GetTable(),
			r.GetShardingColumn(), r.IsLinkedRule(), r.GetSlices(), fl, r.GetSubTableIndexes())
		for _, i := range r.GetSubTableIndexes() {
			res := Catch(func() string {
				d, err := r.GetDatabaseNameByTableIndex(i)
				si := r.GetSliceIndexFromTableIndex(i)
				return fmt.Sprintf("%s,%v,slice#%d=%s", d, err, si, r.GetSlice(si))
			})
			fmt.Fprintf(&sb, " [%d:%s]", i, res)
		}
		if mr, ok := r.(router.MycatRule); ok {
			fmt.Fprintf(&sb, " dbs=%v", mr.GetDatabases())
			for _, d := range mr.GetDatabases() {
				i, ok := mr.GetTableIndexByDatabaseName(d)
				fmt.Fprintf(&sb, " %s->%d,%v", d, i, ok)
			}
		}
		if r.GetType() != router.DefaultRuleType && r.GetType() != router.GlobalTableRuleType {
			for _, k := range []interface{}{0, 1, 5, 99, 100, 257, 1023, 123456789, "abcd", "zz top", "20200215", "2020-05-31", "2018-07-01", "2020-01-07"} {
				res := Catch(func() string {
					i, err := r.FindTableIndex(k)
					if err != nil {
						return "err"
					}
					return fmt.Sprint(i)
				})
				fmt.Fprintf(&sb, " key(%v)=%s", k, res)
			}
		}
		lines = append(lines, sb.String())
	}
	for db, m := range rt.GetAllRules() {
		for t, r := range m {
			one(db+"."+t, r)
		}
	}
	sort.Strings(lines)
	one("<default>", rt.GetDefaultRule())
	return strings.Join(lines, "\n")
}

// Catch turns a panic of f into its result string.
func Catch(f func() string) (res string) {
	defer func() {
		if r := recover(); r != nil {
			res = fmt.Sprintf("panic: %v", r)
		}
	}()
	return f()
}

func firstDiff(a, b string) string {
	la, lb := strings.Split(a, "\n"), strings.Split(b, "\n")
	for i := 0; i < len(la) || i < len(lb); i++ {
		var x, y string
		if i < len(la) {
			x = la[i]
		}
		if i < len(lb) {
			y = lb[i]
		}
		if x != y {
			return fmt.Sprintf("before: %s\nafter:  %s", x, y)
		}
	}
	return ""
}

// ---- a workload ----

type workload struct {
	Sessions [][]op `json:"sessions"` // one list per goroutine
	Reps     int    `json:"reps"`     // each goroutine runs its list this many times
}

type runResult struct {
	Mismatches []string `json:"mismatches"` // concurrent plan differs from the plan computed alone
	After      []string `json:"after"`      // plan computed alone after the workload differs from the plan computed alone on an untouched router
	TableDiff  string   `json:"table_diff"` // routing table before vs after the workload
	Planned    int      `json:"planned"`
	Err        string   `json:"err"`
}

// runWorkload
//  1. plans every statement alone, one at a time, on a router no session uses, and requires
//     that router's routing table to be unchanged afterwards;
//  2. snapshots the routing table of the shared router, then lets all sessions plan at
//     once behind a start barrier and compares each plan with (1);
//  3. plans every statement alone again on the shared router and compares with (1):
//     shared state changed by some earlier statement shows up here without any race;
//  4. snapshots the routing table again and compares with the first snapshot.
func runWorkload(c workload) runResult {
	var out runResult
	e, err := newEnv()
	if err != nil {
		out.Err = err.Error()
		return out
	}
	// (1) on a router of its own; building one costs milliseconds (murmur rings), so the
	// statements of a workload share it and its routing table must come out unchanged
	pe, err := newEnv()
	if err != nil {
		out.Err = err.Error()
		return out
	}
	pristine := snapshot(pe.router)
	solo := make([][]string, len(c.Sessions))
	cache := map[op]string{}
	for g, ops := range c.Sessions {
		solo[g] = make([]string, len(ops))
		for j, o := range ops {
			if r, ok := cache[o]; ok {
				solo[g][j] = r
				continue
			}
			solo[g][j] = planOne(pe, o)
			cache[o] = solo[g][j]
		}
	}
	if after := snapshot(pe.router); after != pristine {
		out.TableDiff = "(while planning the statements one at a time)\n" + firstDiff(pristine, after)
		return out
	}
	before := snapshot(e.router)
	reps := c.Reps
	if reps < 1 {
		reps = 1
	}
	start := make(chan struct{})
	var wg sync.WaitGroup
	mism := make([][]string, len(c.Sessions))
	counts := make([]int, len(c.Sessions))
	for g := range c.Sessions {
		wg.Add(1)
		go func(g int) {
			defer wg.Done()
			ops := c.Sessions[g]
			<-start
			for r := 0; r < reps; r++ {
				for j, o := range ops {
					got := planOne(e, o)
					counts[g]++
					if got != solo[g][j] && len(mism[g]) < 3 {
						mism[g] = append(mism[g], fmt.Sprintf("session %d statement %d (db %q, %s %q): planned alone:\n%s\nplanned concurrently:\n%s",
							g, j, o.DB, o.Kind, o.SQL+o.Table, solo[g][j], got))
					}
				}
			}
		}(g)
	}
	close(start)
	wg.Wait()
	for g := range mism {
		out.Mismatches = append(out.Mismatches, mism[g]...)
		out.Planned += counts[g]
	}
	for g, ops := range c.Sessions {
		for j, o := range ops {
			got := planOne(e, o)
			if got != solo[g][j] && len(out.After) < 5 {
				out.After = append(out.After, fmt.Sprintf("session %d statement %d (db %q, %s %q): planned alone on an untouched router:\n%s\nplanned alone after the workload:\n%s",
					g, j, o.DB, o.Kind, o.SQL+o.Table, solo[g][j], got))
			}
		}
	}
	if after := snapshot(e.router); after != before {
		out.TableDiff = firstDiff(before, after)
	}
	return out
}
