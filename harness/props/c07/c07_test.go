//go:build verif

// C07 Concurrent sessions plan independently of each other.
//
// Sub-checks:
//
//	plans  (normal build) a generated workload of 2-16 sessions is planned statement
//	       by statement alone, then by all sessions at once behind a start barrier,
//	       against one router; every concurrent plan (path taken, plan type, the
//	       slice|database|SQL triples handed to the executor) must equal the plan
//	       computed alone (reads of a global table up to the choice of slice).
//	race   (-race build, started by the driver with VERIF_RACE=1) the same workload
//	       is run in a child process of this test binary with its own GORACE log;
//	       the parent compares plans as above and turns every race report that has a
//	       Gaea frame into a violation (C07-F1, the write in (*Router).GetRule, is
//	       fixed in /repo; its witness is kept as a regression case).
//
// In both sub-checks "alone" means: on a router nothing else has used. After the
// concurrent phase every statement is planned alone once more on the shared
// router and must still give that plan, and the router's observable routing table
// (every rule: indexes, slices, database per index, first/last index, mycat
// database map, placement of fixed keys) must be what it was before the workload.
package c07

import (
	"bufio"
	"encoding/json"
	"io"
	"fmt"
	"os"
	"os/exec"
	"path/filepath"
	"regexp"
	"sort"
	"strings"
	"testing"
	"time"

	"pgregory.net/rapid"
	"verifharness/internal/pbt"
)

// ---- generator ----

var shardTables = []string{"t_hash", "t_mod", "t_range"}

// judgeRun turns the result of a workload into a violation text (empty: none).
func judgeRun(res runResult) string {
	switch {
	case len(res.Mismatches) > 0:
		return fmt.Sprintf("%d statement(s) planned differently under concurrency; first: %s", len(res.Mismatches), res.Mismatches[0])
	case res.TableDiff != "":
		return "planning changed the routing table shared between sessions:\n" + res.TableDiff
	case len(res.After) > 0:
		return fmt.Sprintf("%d statement(s) are planned differently after the workload than on an untouched router (shared routing state was changed by planning); first: %s", len(res.After), res.After[0])
	}
	return ""
}

func genKey(t *rapid.T, name string) int {
	return rapid.IntRange(0, 399).Draw(t, name)
}

// keyTable describes a table whose rule computes the shard from a key with a shard
// function object shared by every session.
type keyTable struct {
	db, table, col, kind string // kind: int | smallint | str | year | month | day
}

var keyTables = []keyTable{
	{dbShard, "t_hash", "id", "int"}, {dbShard, "t_hash2", "id", "int"}, {dbShard, "t_mod", "id", "int"}, {dbShard, "t_range", "id", "smallint"},
	{dbShard, "t_year", "d", "year"}, {dbShard, "t_month", "d", "month"}, {dbShard, "t_day", "d", "day"},
	{dbMycat, "t_mm", "id", "int"}, {dbMycat, "t_ml", "id", "int"}, {dbMycat, "t_mur1", "id", "int"}, {dbMycat, "t_mur2", "id", "int"},
	{dbMycat, "t_mur3", "name", "str"}, {dbMycat, "t_str", "name", "str"}, {dbMycat, "t_pad", "id", "int"},
}

// genKeyLit draws a key literal of the table's key type; the domain is wide so that
// concurrent sessions hand different inputs to the same shard function.
func genKeyLit(t *rapid.T, kt keyTable, name string) string {
	switch kt.kind {
	case "smallint":
		return fmt.Sprint(rapid.IntRange(0, 399).Draw(t, name))
	case "str":
		n := rapid.IntRange(1, 12).Draw(t, name+"_n")
		b := make([]byte, n)
		for i := range b {
			b[i] = "abcdefghijklmnopqrstuvwxyz0123456789_"[rapid.IntRange(0, 36).Draw(t, name+"_c")]
		}
		return "'" + string(b) + "'"
	case "year":
		return fmt.Sprintf("'%d-%02d-%02d'", rapid.IntRange(2016, 2020).Draw(t, name+"_y"), rapid.IntRange(1, 12).Draw(t, name+"_m"), rapid.IntRange(1, 28).Draw(t, name+"_d"))
	case "month":
		return fmt.Sprintf("'2020-%02d-%02d'", rapid.IntRange(1, 6).Draw(t, name+"_m"), rapid.IntRange(1, 28).Draw(t, name+"_d"))
	case "day":
		return fmt.Sprintf("'2020-01-%02d'", rapid.IntRange(1, 10).Draw(t, name+"_d"))
	}
	if rapid.IntRange(0, 3).Draw(t, name+"_big") == 0 {
		return fmt.Sprint(rapid.Int64Range(0, 1<<40).Draw(t, name))
	}
	return fmt.Sprint(rapid.IntRange(0, 99999).Draw(t, name))
}

// genKeyOp draws a statement that is routed by computing the shard of one or more keys.
func genKeyOp(t *rapid.T, db string) op {
	kt := rapid.SampledFrom(keyTables).Draw(t, "kt")
	ref := kt.table
	if kt.db != db || rapid.IntRange(0, 4).Draw(t, "kqual") == 0 {
		ref = kt.db + "." + kt.table
	}
	o := op{Kind: "query", DB: db, Class: "keyroute_" + kt.table}
	k := genKeyLit(t, kt, "key")
	other := "v"
	switch rapid.IntRange(0, 6).Draw(t, "kform") {
	case 0, 1:
		o.SQL = fmt.Sprintf("SELECT * FROM %s WHERE %s = %s", ref, kt.col, k)
	case 2:
		o.SQL = fmt.Sprintf("SELECT * FROM %s WHERE %s IN (%s, %s, %s)", ref, kt.col, k, genKeyLit(t, kt, "key2"), genKeyLit(t, kt, "key3"))
	case 3:
		o.SQL = fmt.Sprintf("INSERT INTO %s (%s, %s) VALUES (%s, 'x')", ref, kt.col, other, k)
	case 4:
		o.SQL = fmt.Sprintf("INSERT INTO %s (%s, %s) VALUES (%s, 'a'), (%s, 'b')", ref, kt.col, other, k, genKeyLit(t, kt, "key2"))
	case 5:
		o.SQL = fmt.Sprintf("UPDATE %s SET %s = 'y' WHERE %s = %s", ref, other, kt.col, k)
	default:
		o.SQL = fmt.Sprintf("DELETE FROM %s WHERE %s IN (%s, %s)", ref, kt.col, k, genKeyLit(t, kt, "key2"))
	}
	return o
}

// genOp draws one statement for a session whose current database is db.
func genOp(t *rapid.T, db string) op {
	k := genKey(t, "k")
	o := op{Kind: "query", DB: db}
	// qualify returns the table reference as written in the statement
	qualify := func(tdb, table string) string {
		if tdb == db && rapid.IntRange(0, 3).Draw(t, "qual") != 0 {
			return table
		}
		return tdb + "." + table
	}
	plainTable := func() (string, string) {
		// a table without a rule: in a plain database, or the plain table of the sharded database
		tdb := db
		if db == "" || db == dbMycat || rapid.IntRange(0, 3).Draw(t, "otherdb") == 0 {
			tdb = rapid.SampledFrom(append([]string{dbShard}, plainDBs...)).Draw(t, "tdb")
		}
		table := rapid.SampledFrom([]string{"u1", "u2"}).Draw(t, "ut")
		if tdb == dbShard {
			table = "u_plain"
		}
		return tdb, table
	}
	switch kind := rapid.IntRange(0, 23).Draw(t, "kind"); {
	case kind >= 20: // routed by the shard function of some rule
		return genKeyOp(t, db)
	case kind <= 6: // statement on a table without a rule
		tdb, table := plainTable()
		ref := qualify(tdb, table)
		o.Class, o.RuleDB = "default", tdb
		switch rapid.IntRange(0, 9).Draw(t, "form") {
		case 6:
			o.SQL = rapid.SampledFrom([]string{"SELECT last_insert_id()", "select last_insert_id() as id", "SELECT LAST_INSERT_ID ( )"}).Draw(t, "lid")
		case 7:
			o.SQL = fmt.Sprintf("/*master*/ SELECT * FROM %s WHERE id = %d", ref, k)
		case 8:
			o.SQL = fmt.Sprintf("SELECT * FROM %s WHERE id > %d LIMIT 2, 5", ref, k)
		case 9:
			o.SQL = fmt.Sprintf("EXPLAIN UPDATE %s SET v = 'y' WHERE id = %d", ref, k)
		case 0:
			o.SQL = fmt.Sprintf("SELECT * FROM %s WHERE id = %d", ref, k)
		case 1:
			o.SQL = fmt.Sprintf("INSERT INTO %s (id, v) VALUES (%d, 'x')", ref, k)
		case 2:
			o.SQL = fmt.Sprintf("UPDATE %s SET v = 'y' WHERE id = %d", ref, k)
		case 3:
			o.SQL = fmt.Sprintf("DELETE FROM %s WHERE id = %d", ref, k)
		case 4:
			o.SQL = fmt.Sprintf("SELECT a.id FROM %s a JOIN %s b ON a.id = b.id WHERE a.id > %d", ref, ref, k)
		default:
			o.SQL = fmt.Sprintf("EXPLAIN SELECT * FROM %s WHERE id = %d", ref, k)
		}
	case kind <= 8: // field list command
		o.Kind = "fieldlist"
		if rapid.Bool().Draw(t, "fl_plain") {
			tdb, table := plainTable()
			o.Class, o.RuleDB = "default", tdb
			o.Table = table
			if tdb != db {
				o.Table = tdb + "." + table
			}
		} else {
			o.Class = "shard"
			o.Table = rapid.SampledFrom(shardTables).Draw(t, "fl_t")
			if db != dbShard {
				o.Table = dbShard + "." + o.Table
			}
		}
	case kind <= 13: // sharded table
		table := rapid.SampledFrom(shardTables).Draw(t, "st")
		ref := qualify(dbShard, table)
		o.Class = "shard"
		switch rapid.IntRange(0, 24).Draw(t, "form") {
		case 0:
			o.SQL = fmt.Sprintf("SELECT * FROM %s WHERE id = %d", ref, k)
		case 1:
			o.SQL = fmt.Sprintf("SELECT id, v FROM %s WHERE id IN (%d, %d, %d)", ref, k, genKey(t, "k2"), genKey(t, "k3"))
		case 2:
			o.SQL = fmt.Sprintf("SELECT * FROM %s WHERE id > %d ORDER BY id LIMIT 5", ref, k)
		case 3:
			o.SQL = fmt.Sprintf("SELECT count(*) FROM %s", ref)
		case 4:
			o.SQL = fmt.Sprintf("INSERT INTO %s (id, v) VALUES (%d, 'x')", ref, k)
		case 5:
			o.SQL = fmt.Sprintf("UPDATE %s SET v = 'y' WHERE id = %d", ref, k)
		case 6:
			o.SQL = fmt.Sprintf("DELETE FROM %s WHERE id = %d", ref, k)
		case 7:
			o.SQL = fmt.Sprintf("EXPLAIN SELECT * FROM %s WHERE id = %d", ref, k)
		case 8:
			o.SQL = fmt.Sprintf("SELECT * FROM %s a JOIN %s c ON a.id = c.pid WHERE a.id = %d", qualify(dbShard, "t_hash"), qualify(dbShard, "t_child"), k)
		case 9: // LIMIT offset rewriting
			o.SQL = fmt.Sprintf("SELECT id, v FROM %s ORDER BY id DESC LIMIT %d, 10", ref, k%50)
		case 10: // aggregates / GROUP BY are rewritten and merged
			o.SQL = fmt.Sprintf("SELECT v, count(*), max(id), sum(id) FROM %s WHERE id >= %d GROUP BY v ORDER BY v", ref, k)
		case 11:
			o.SQL = fmt.Sprintf("SELECT DISTINCT v FROM %s WHERE id BETWEEN %d AND %d", ref, k, k+genKey(t, "k2")%120)
		case 12:
			o.SQL = fmt.Sprintf("/*master*/ SELECT * FROM %s WHERE id = %d", ref, k)
		case 13:
			o.SQL = fmt.Sprintf("SELECT /*+ MAX_EXECUTION_TIME(1000) */ * FROM %s WHERE id < %d", ref, k)
		case 14:
			o.SQL = fmt.Sprintf("INSERT INTO %s (id, v) VALUES (%d, 'a'), (%d, 'b'), (%d, 'c')", ref, k, genKey(t, "k2"), genKey(t, "k3"))
		case 15:
			o.SQL = fmt.Sprintf("INSERT INTO %s (id, v) VALUES (%d, 'a') ON DUPLICATE KEY UPDATE v = 'b'", ref, k)
		case 16:
			o.SQL = fmt.Sprintf("REPLACE INTO %s (id, v) VALUES (%d, 'r')", ref, k)
		case 17:
			o.SQL = fmt.Sprintf("INSERT INTO %s SET id = %d, v = 's'", ref, k)
		case 18:
			o.SQL = fmt.Sprintf("UPDATE %s SET v = 'y' WHERE id IN (%d, %d) AND v <> 'q'", ref, k, genKey(t, "k2"))
		case 19:
			o.SQL = fmt.Sprintf("DELETE FROM %s WHERE v = 'gone'", ref)
		case 20:
			o.SQL = fmt.Sprintf("EXPLAIN UPDATE %s SET v = 'y' WHERE id = %d", ref, k)
		case 21:
			o.SQL = fmt.Sprintf("EXPLAIN INSERT INTO %s (id, v) VALUES (%d, 'x')", ref, k)
		case 22:
			o.SQL = fmt.Sprintf("SELECT id FROM %s WHERE id = %d UNION SELECT id FROM %s WHERE id = %d", ref, k, qualify(dbShard, "t_mod"), genKey(t, "k2"))
		case 23:
			o.SQL = fmt.Sprintf("SELECT * FROM %s WHERE id IN (SELECT pid FROM %s WHERE pid = %d)", qualify(dbShard, "t_hash"), qualify(dbShard, "t_child"), k)
		default: // calendar rule
			mref := qualify(dbShard, "t_month")
			switch rapid.IntRange(0, 2).Draw(t, "mform") {
			case 0:
				o.SQL = fmt.Sprintf("SELECT * FROM %s WHERE d = '2020-0%d-15'", mref, 1+k%6)
			case 1:
				o.SQL = fmt.Sprintf("SELECT * FROM %s WHERE d >= '2020-0%d-01'", mref, 1+k%6)
			default:
				o.SQL = fmt.Sprintf("INSERT INTO %s (id, d) VALUES (%d, '2020-0%d-20')", mref, k, 1+k%6)
			}
		}
	case kind <= 16: // mycat-style tables, including the DATABASE() restriction of the mycat compatibility
		table := rapid.SampledFrom([]string{"t_mm", "t_ml"}).Draw(t, "mt")
		ref := qualify(dbMycat, table)
		o.Class = "shard"
		hdb := fmt.Sprintf("db_m_%d", rapid.IntRange(0, 3).Draw(t, "hdb")) // first and non-first databases
		switch rapid.IntRange(0, 11).Draw(t, "form") {
		case 0:
			o.SQL = fmt.Sprintf("INSERT INTO %s (id, v) VALUES (%d, 'x')", ref, k)
		case 1:
			o.SQL = fmt.Sprintf("SELECT * FROM %s WHERE id = %d", ref, k)
		case 2:
			o.SQL = fmt.Sprintf("SELECT * FROM %s", ref) // broadcast: shows every sub-table index of the rule
		case 3:
			o.SQL = fmt.Sprintf("SELECT count(*) FROM %s WHERE v = 'x'", ref)
		case 4:
			o.Class = "hint_database"
			o.SQL = fmt.Sprintf("SELECT * FROM %s WHERE DATABASE() = '%s'", ref, hdb)
		case 5:
			o.Class = "hint_database"
			o.SQL = fmt.Sprintf("SELECT * FROM %s WHERE DATABASE() = %s AND v = 'x'", ref, hdb)
		case 6:
			o.Class = "hint_database"
			o.SQL = fmt.Sprintf("SELECT * FROM %s WHERE `%s` = DATABASE() AND id = %d", ref, hdb, k)
		case 7:
			o.Class = "hint_database"
			o.SQL = fmt.Sprintf("SELECT * FROM %s WHERE '%s' = DATABASE() ORDER BY id LIMIT 3", ref, hdb)
		case 8:
			o.Class = "hint_database"
			o.SQL = fmt.Sprintf("SELECT * FROM %s WHERE database() IN ('db_m_0', '%s')", ref, hdb)
		case 9:
			o.Class = "hint_database"
			o.SQL = fmt.Sprintf("EXPLAIN SELECT * FROM %s WHERE DATABASE() = '%s'", ref, hdb)
		case 10:
			o.Class = "hint_mycat_sql" // the hint statement decides the database
			o.SQL = fmt.Sprintf("SELECT * FROM %s /* !mycat:sql=select 1 from %s where id = %d */", ref, ref, k)
		default:
			o.SQL = fmt.Sprintf("UPDATE %s SET v = 'y' WHERE id IN (%d, %d)", ref, k, genKey(t, "k2"))
		}
	case kind <= 17: // global table
		ref := qualify(dbShard, "t_glob")
		if rapid.Bool().Draw(t, "g_w") {
			o.Class = "global_write"
			o.SQL = fmt.Sprintf("UPDATE %s SET v = 'z' WHERE id = %d", ref, k)
		} else {
			o.Class = "global_read"
			o.SQL = fmt.Sprintf("SELECT * FROM %s WHERE id = %d", ref, k)
		}
	default: // sharded joined with global
		o.Class = "shard"
		o.SQL = fmt.Sprintf("SELECT a.id, g.v FROM %s a JOIN %s g ON a.v = g.v WHERE a.id = %d", qualify(dbShard, "t_hash"), qualify(dbShard, "t_glob"), k)
	}
	return o
}

func genWorkload(t *rapid.T) workload {
	var w workload
	n := rapid.IntRange(2, 16).Draw(t, "sessions")
	w.Reps = rapid.IntRange(1, 30).Draw(t, "reps")
	allDBs := append([]string{dbShard, dbMycat, ""}, plainDBs...)
	for g := 0; g < n; g++ {
		// a session mostly stays in one database
		home := rapid.SampledFrom(allDBs).Draw(t, "home")
		if home == "" && rapid.IntRange(0, 3).Draw(t, "nodb") != 0 {
			home = rapid.SampledFrom(plainDBs).Draw(t, "home2")
		}
		var ops []op
		if rapid.IntRange(0, 2).Draw(t, "keysession") == 0 {
			// a session that only routes by key, with many different keys
			m := rapid.IntRange(8, 24).Draw(t, "kops")
			for j := 0; j < m; j++ {
				ops = append(ops, genKeyOp(t, home))
			}
			w.Sessions = append(w.Sessions, ops)
			continue
		}
		m := rapid.IntRange(1, 8).Draw(t, "ops")
		for j := 0; j < m; j++ {
			db := home
			if rapid.IntRange(0, 5).Draw(t, "use") == 0 {
				db = rapid.SampledFrom(allDBs).Draw(t, "usedb")
			}
			ops = append(ops, genOp(t, db))
		}
		w.Sessions = append(w.Sessions, ops)
	}
	return w
}

// classify computes the non-trivial rule and the labels of a workload.
func classify(c workload) (nonTrivial bool, labels []string) {
	defaultDBs := map[string]map[int]bool{} // rule database -> sessions that resolve the default rule with it
	shardSess, defSess := map[int]bool{}, map[int]bool{}
	classes := map[string]bool{}
	for g, ops := range c.Sessions {
		for _, o := range ops {
			classes[o.Kind+"_"+o.Class] = true
			if strings.HasPrefix(o.SQL, "EXPLAIN") {
				classes["explain"] = true
			}
			if o.Class == "default" {
				if defaultDBs[o.RuleDB] == nil {
					defaultDBs[o.RuleDB] = map[int]bool{}
				}
				defaultDBs[o.RuleDB][g] = true
				defSess[g] = true
			} else {
				shardSess[g] = true
			}
		}
	}
	// >= 2 sessions resolve the default rule with different databases
	diffDB := false
	for d1, s1 := range defaultDBs {
		for d2, s2 := range defaultDBs {
			if d1 == d2 {
				continue
			}
			for a := range s1 {
				for b := range s2 {
					if a != b {
						diffDB = true
					}
				}
			}
		}
	}
	// a sharded statement in one session overlaps an unsharded one in another
	overlap := false
	for a := range shardSess {
		for b := range defSess {
			if a != b {
				overlap = true
			}
		}
	}
	if diffDB {
		labels = append(labels, "default_rule_with_different_dbs")
	}
	if overlap {
		labels = append(labels, "shard_and_unshard_overlap")
	}
	for k := range classes {
		labels = append(labels, "has_"+k)
	}
	sort.Strings(labels)
	labels = append(labels, fmt.Sprintf("sessions_%02d", len(c.Sessions)))
	return diffDB || overlap, labels
}

func validWorkload(c workload) string {
	if len(c.Sessions) < 1 || len(c.Sessions) > 64 {
		return "malformed workload"
	}
	for _, ops := range c.Sessions {
		for _, o := range ops {
			if o.Kind != "query" && o.Kind != "fieldlist" {
				return "malformed statement"
			}
		}
	}
	return ""
}

// ---- sub-check plans (in process) ----

func checkPlans(c workload) (o pbt.Outcome) {
	if s := validWorkload(c); s != "" {
		o.Skip = s
		return
	}
	o.NonTrivial, o.Labels = classify(c)
	res := runWorkload(c)
	if res.Err != "" {
		o.Skip = "fixture rejected: " + res.Err
		return
	}
	o.Violation = judgeRun(res)
	return
}

// fixtureOK fails the test outright when the hand-written namespace is not an accepted
// configuration (a harness defect must not pass as a run of skipped cases).
func fixtureOK(t *testing.T) {
	if _, err := newEnv(); err != nil {
		t.Fatalf("C07 fixture is not an accepted configuration: %v", err)
	}
}

func TestC07Plans(t *testing.T) {
	fixtureOK(t)
	pbt.Run(t, pbt.Spec{ID: "C07", Sub: "plans", Quick: 400, Thorough: 4000,
		Rule: "2-16 sessions with 1-8 statements each (a third of the sessions: 8-24 statements that only route by key - point selects, IN lists, single and multi-row inserts, updates, deletes with distinct int/string/date keys - on tables of every rule type: hash x2, mod, range, date_year/month/day, mycat_mod/long/murmur x3/string/padding_mod), repeated 1-30 times behind a start barrier against one router (hash/mod/range/month/linked/global/mycat_mod/mycat_long rules, three databases without rules, one plain table in the sharded database); statements: SELECT/INSERT/REPLACE/UPDATE/DELETE/EXPLAIN/JOIN/UNION/subquery on sharded (hash, mod, range, month), linked, global, mycat (mod, long) and rule-less tables, qualified or not, with LIMIT offset, GROUP BY/aggregates, DISTINCT, /*master*/ and optimizer hints, DATABASE()-restricted mycat selects (=, reversed, IN, quoted/bare/backquoted, every database), mycat sql hints, last_insert_id, and field-list lookups; every plan is also recomputed alone after the workload and the routing table is compared before/after; non-trivial = two sessions resolve the default rule with different databases, or a sharded statement in one session overlaps an unsharded one in another",
		Floor: 0.5}, genWorkload, checkPlans)
}

// ---- sub-check race (child process under the race detector) ----

type access struct {
	Kind   string   // e.g. "Write", "Previous read"
	Write  bool
	Frames []string // "func file:line", innermost first
}

type raceReport struct {
	Accesses []access
	Raw      string
}

var (
	reAccess = regexp.MustCompile(`^(Read|Write|Previous read|Previous write|Atomic read|Atomic write|Previous atomic read|Previous atomic write) at 0x[0-9a-f]+ by `)
	reFile   = regexp.MustCompile(`^\s+(\S+):(\d+)( \+0x[0-9a-f]+)?$`)
)

// parseRaceLog splits a GORACE log into reports and extracts the two racing accesses.
func parseRaceLog(txt string) []raceReport {
	var reps []raceReport
	blocks := strings.Split(txt, "WARNING: DATA RACE")
	for _, b := range blocks[1:] {
		if i := strings.Index(b, "=================="); i >= 0 {
			b = b[:i]
		}
		rep := raceReport{Raw: strings.TrimSpace(b)}
		var cur *access
		lines := strings.Split(b, "\n")
		for i := 0; i < len(lines); i++ {
			ln := lines[i]
			if m := reAccess.FindStringSubmatch(ln); m != nil {
				rep.Accesses = append(rep.Accesses, access{Kind: m[1], Write: strings.Contains(strings.ToLower(m[1]), "write")})
				cur = &rep.Accesses[len(rep.Accesses)-1]
				continue
			}
			if strings.TrimSpace(ln) == "" || strings.HasPrefix(ln, "Goroutine ") {
				cur = nil
				continue
			}
			if cur != nil && strings.HasPrefix(ln, "  ") && !strings.HasPrefix(ln, "   ") && i+1 < len(lines) {
				fn := strings.TrimSpace(ln)
				fn = strings.TrimSuffix(fn, "()")
				loc := ""
				if m := reFile.FindStringSubmatch(lines[i+1]); m != nil {
					loc = filepath.Base(m[1]) + ":" + m[2]
					i++
				}
				cur.Frames = append(cur.Frames, fn+" "+loc)
			}
		}
		reps = append(reps, rep)
	}
	return reps
}

const gaeaPkg = "github.com/XiaoMi/Gaea/"

func firstGaeaFrame(a access) string {
	for _, f := range a.Frames {
		if strings.HasPrefix(f, gaeaPkg) {
			return f
		}
	}
	return ""
}

// isGetRuleWrite: the access is a write performed by the body of (*Router).GetRule itself
// (the shape of fixed finding C07-F1; only the parser test uses it now).
func isGetRuleWrite(a access) bool {
	return a.Write && len(a.Frames) > 0 && strings.HasPrefix(a.Frames[0], gaeaPkg+"proxy/router.(*Router).GetRule ")
}

func summarize(r raceReport) string {
	var parts []string
	for _, a := range r.Accesses {
		fr := a.Frames
		if len(fr) > 4 {
			fr = fr[:4]
		}
		parts = append(parts, a.Kind+" in "+strings.Join(fr, " <- "))
	}
	return strings.Join(parts, " || ")
}

func gorace(name string) string {
	for _, f := range strings.Fields(os.Getenv("GORACE")) {
		if strings.HasPrefix(f, name+"=") {
			return strings.TrimPrefix(f, name+"=")
		}
	}
	return ""
}

var savedReports int

// keepReport appends a child's report next to the parent's own GORACE log so
// that the driver's evidence (race_reports) shows it; at most 40 per process.
func keepReport(raw string) {
	lp := gorace("log_path")
	if lp == "" || savedReports >= 40 {
		return
	}
	savedReports++
	f, err := os.OpenFile(lp+".children", os.O_APPEND|os.O_CREATE|os.O_WRONLY, 0o644)
	if err != nil {
		return
	}
	defer f.Close()
	fmt.Fprintf(f, "==================\nWARNING: DATA RACE\n%s\n==================\n", raw)
}

// child is the long-lived child process of the -race build that runs the
// workloads (starting a race-instrumented Gaea costs seconds, a workload
// milliseconds). Requests go to its stdin, one JSON workload per line; replies
// come back on fd 3; its race reports go to <dir>/race.<pid>, and everything the
// runtime appended while a workload ran belongs to that workload (all sessions
// have finished before the child replies). The race runtime reports a given pair
// of stacks once per process, so the child is restarted after every workload
// that produced an unclassified report (shrinking then starts from a clean process).
type child struct {
	cmd    *exec.Cmd
	stdin  io.WriteCloser
	reply  *bufio.Reader
	replyF *os.File
	dir    string
	offset map[string]int64
	served int
}

var theChild *child

func startChild() (*child, error) {
	dir, err := os.MkdirTemp("", "verif-c07-")
	if err != nil {
		return nil, err
	}
	pr, pw, err := os.Pipe()
	if err != nil {
		os.RemoveAll(dir)
		return nil, err
	}
	self, err := os.Executable()
	if err != nil {
		self = os.Args[0]
	}
	cmd := exec.Command(self, "-test.run", "^TestC07RaceChild$", "-test.count", "1", "-test.timeout", "0")
	for _, kv := range os.Environ() {
		if strings.HasPrefix(kv, "GORACE=") || strings.HasPrefix(kv, "VERIF_REPLAY=") || strings.HasPrefix(kv, "C07_") {
			continue
		}
		cmd.Env = append(cmd.Env, kv)
	}
	cmd.Env = append(cmd.Env, "C07_CHILD_SERVE=1",
		"GORACE=log_path="+filepath.Join(dir, "race")+" halt_on_error=0 exitcode=0")
	cmd.Dir = dir
	cmd.ExtraFiles = []*os.File{pw} // fd 3 in the child
	cmd.Stdout, cmd.Stderr = nil, nil
	stdin, err := cmd.StdinPipe()
	if err == nil {
		err = cmd.Start()
	}
	pw.Close()
	if err != nil {
		pr.Close()
		os.RemoveAll(dir)
		return nil, err
	}
	return &child{cmd: cmd, stdin: stdin, reply: bufio.NewReaderSize(pr, 1<<20), replyF: pr, dir: dir, offset: map[string]int64{}}, nil
}

func (c *child) stop() {
	if c == nil {
		return
	}
	c.stdin.Close()
	done := make(chan struct{})
	go func() { c.cmd.Wait(); close(done) }()
	select {
	case <-done:
	case <-time.After(10 * time.Second):
		c.cmd.Process.Kill()
		<-done
	}
	c.replyF.Close()
	os.RemoveAll(c.dir)
}

// run sends one workload and returns its result and the race reports written meanwhile.
func (c *child) run(w workload) (runResult, []raceReport, error) {
	var res runResult
	b, _ := json.Marshal(w)
	if _, err := c.stdin.Write(append(b, '\n')); err != nil {
		return res, nil, fmt.Errorf("write to child: %v", err)
	}
	type rd struct {
		line []byte
		err  error
	}
	ch := make(chan rd, 1)
	go func() { l, err := c.reply.ReadBytes('\n'); ch <- rd{l, err} }()
	var line []byte
	select {
	case r := <-ch:
		if r.err != nil {
			return res, nil, fmt.Errorf("child died: %v", r.err)
		}
		line = r.line
	case <-time.After(5 * time.Minute):
		return res, nil, fmt.Errorf("child timed out")
	}
	if err := json.Unmarshal(line, &res); err != nil {
		return res, nil, fmt.Errorf("bad reply from child: %v", err)
	}
	c.served++
	var reports []raceReport
	logs, _ := filepath.Glob(filepath.Join(c.dir, "race.*"))
	sort.Strings(logs)
	for _, p := range logs {
		f, err := os.Open(p)
		if err != nil {
			continue
		}
		f.Seek(c.offset[p], 0)
		nb, _ := io.ReadAll(f)
		f.Close()
		c.offset[p] += int64(len(nb))
		reports = append(reports, parseRaceLog(string(nb))...)
	}
	return res, reports, nil
}

func checkRace(c workload, rec *pbt.Recorder) (o pbt.Outcome) {
	if s := validWorkload(c); s != "" {
		o.Skip = s
		return
	}
	o.NonTrivial, o.Labels = classify(c)
	if theChild == nil {
		ch, err := startChild()
		if err != nil {
			o.Skip = "cannot start child: " + err.Error()
			return
		}
		theChild = ch
		o.Labels = append(o.Labels, "child_started")
	}
	res, reports, err := theChild.run(c)
	restart := func() { theChild.stop(); theChild = nil }
	if err != nil {
		restart()
		o.Skip = err.Error()
		return
	}
	if res.Err != "" {
		o.Skip = "child failed: " + res.Err
		return
	}
	if v := judgeRun(res); v != "" {
		restart()
		o.Violation = v
		return
	}
	o.Labels = append(o.Labels, fmt.Sprintf("race_reports_%d", min(len(reports), 5)))
	for _, r := range reports {
		keepReport(r.Raw)
		if len(r.Accesses) < 2 {
			restart()
			o.Violation = "race report that could not be parsed: " + tail(r.Raw, 1500)
			return
		}
		a, b := r.Accesses[0], r.Accesses[1]
		ga, gb := firstGaeaFrame(a), firstGaeaFrame(b)
		if ga == "" && gb == "" {
			o.Labels = append(o.Labels, "race_without_gaea_frame")
			fmt.Printf("C07 NOTE: race report without a Gaea frame (harness?): %s\n", summarize(r))
			continue
		}
		restart()
		o.Violation = "data race in Gaea while sessions plan concurrently: " + summarize(r)
		return
	}
	return
}

func tail(s string, n int) string {
	if len(s) > n {
		return "..." + s[len(s)-n:]
	}
	return s
}

func TestC07Race(t *testing.T) {
	if !raceBuild {
		t.Skip("needs the -race build (the driver runs it with VERIF_RACE=1)")
	}
	fixtureOK(t)
	ch, err := startChild()
	if err != nil {
		t.Fatalf("cannot start the child process: %v", err)
	}
	theChild = ch
	defer func() { theChild.stop(); theChild = nil }()
	pbt.RunWith(t, pbt.Spec{ID: "C07", Sub: "race", Quick: 60, Thorough: 1500,
		Rule: "same workloads as sub-check plans, each run in a long-lived child process of the -race build with its own GORACE log (halt_on_error=0; reports are attributed to the workload during which they were written; the runtime reports one pair of stacks once per process, so known_hits count distinct racing stack pairs, not workloads); plan equality is checked in the child, every race report with a Gaea frame is judged by the parent; non-trivial as in plans",
		Floor: 0.5}, genWorkload, checkRace)
}

// TestC07RaceChild is the child side: it serves workloads from stdin until EOF.
func TestC07RaceChild(t *testing.T) {
	if os.Getenv("C07_CHILD_SERVE") == "" {
		t.Skip("child side of TestC07Race")
	}
	out := os.NewFile(3, "reply")
	in := bufio.NewReaderSize(os.Stdin, 1<<20)
	for {
		line, err := in.ReadBytes('\n')
		if len(line) > 0 {
			var res runResult
			var c workload
			if jerr := json.Unmarshal(line, &c); jerr != nil {
				res.Err = jerr.Error()
			} else {
				res = runWorkload(c)
			}
			ob, _ := json.Marshal(res)
			out.Write(append(ob, '\n'))
		}
		if err != nil {
			return
		}
	}
}

// TestC07ParseRaceLog pins the report parser on the runtime's format.
func TestC07ParseRaceLog(t *testing.T) {
	const sample = `==================
WARNING: DATA RACE
Write at 0x00c0001a2010 by goroutine 9:
  github.com/XiaoMi/Gaea/proxy/router.(*Router).GetRule()
      /repo/proxy/router/router.go:122 +0x1a4
  github.com/XiaoMi/Gaea/proxy/plan.CheckUnshardBase()
      /repo/proxy/plan/plan_unshard.go:238 +0x2c4

Previous read at 0x00c0001a2010 by goroutine 8:
  github.com/XiaoMi/Gaea/proxy/router.(*BaseRule).GetDB()
      /repo/proxy/router/rule.go:120 +0x44
  verifharness/props/c07.planOne()
      /verif/harness/props/c07/env.go:10 +0x1

Goroutine 9 (running) created at:
  verifharness/props/c07.runWorkload()
      /verif/harness/props/c07/env.go:200 +0x5
==================
`
	reps := parseRaceLog(sample)
	if len(reps) != 1 || len(reps[0].Accesses) != 2 {
		t.Fatalf("parsed %+v", reps)
	}
	a, b := reps[0].Accesses[0], reps[0].Accesses[1]
	if !isGetRuleWrite(a) || isGetRuleWrite(b) || b.Write || len(a.Frames) != 2 || len(b.Frames) != 2 ||
		a.Frames[0] != gaeaPkg+"proxy/router.(*Router).GetRule router.go:122" {
		t.Fatalf("accesses %+v %+v", a, b)
	}
}
