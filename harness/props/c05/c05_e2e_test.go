//go:build verif

package c05

import (
	"fmt"
	"regexp"
	"strconv"
	"strings"
	"sync/atomic"
	"testing"

	"github.com/XiaoMi/Gaea/models"
	"pgregory.net/rapid"

	"verifharness/internal/fakemysql"
	"verifharness/internal/pbt"
	"verifharness/internal/proxyfix"
	"verifharness/internal/rawclient"
)

// Sub-check "reported": the second clause of C05 - "the affected-row count
// reported to the client is that number" - observed where the property names
// it: in the OK packet a client of the live proxy receives. The plan-level
// differential (TestC05Modify) hands the plan fresh *mysql.Result objects and
// never frees one, so it cannot see a defect in the life cycle of the pooled
// results (mysql/result_pool.go) that the session writes out and frees after
// every statement. Here a session (or two alternating sessions) sends a
// sequence of writes - multi-shard, single-shard, unsharded - interleaved with
// SELECTs through the real server; every simulated backend answers each
// per-shard statement with a drawn affected-row count; the OK packet of every
// write must carry the sum of the counts the backends reported for that
// statement's per-shard statements (attributed through a unique literal and
// read from the backend event logs).

const (
	kUpdAll  = "update_all_shards"
	kDelAll  = "delete_all_shards"
	kUpdIn   = "update_in_list"
	kUpdOne  = "update_one_shard"
	kDelOne  = "delete_one_shard"
	kInsert  = "insert_sharded"
	kUnshard = "update_unsharded"
	kSelAll  = "select_all_shards"
	kSelUn   = "select_unsharded"
)

var e2eKinds = []string{kUpdAll, kUpdAll, kDelAll, kUpdIn, kUpdOne, kDelOne, kInsert, kUnshard, kSelAll, kSelUn}

type e2eStep struct {
	Sess   int      `json:"sess"`
	Kind   string   `json:"kind"`
	Key    int      `json:"key"`
	Key2   int      `json:"key2"`
	Counts []uint64 `json:"counts"` // affected rows the backend of slice i reports for this statement
}

type e2eCase struct {
	Slices   int       `json:"slices"`
	Sessions int       `json:"sessions"`
	Steps    []e2eStep `json:"steps"`
}

func genE2E(t *rapid.T) e2eCase {
	c := e2eCase{Slices: rapid.IntRange(2, 3).Draw(t, "slices"), Sessions: rapid.IntRange(1, 2).Draw(t, "sessions")}
	n := rapid.IntRange(3, 8).Draw(t, "steps")
	for i := 0; i < n; i++ {
		s := e2eStep{Sess: rapid.IntRange(0, c.Sessions-1).Draw(t, "sess"), Kind: rapid.SampledFrom(e2eKinds).Draw(t, "kind"),
			Key: rapid.IntRange(0, 7).Draw(t, "key"), Key2: rapid.IntRange(0, 7).Draw(t, "key2")}
		for j := 0; j < c.Slices; j++ {
			s.Counts = append(s.Counts, rapid.SampledFrom([]uint64{0, 1, 1, 2, 3, 7, 40, 251, 70000}).Draw(t, "count"))
		}
		c.Steps = append(c.Steps, s)
	}
	return c
}

const tagBase = 7000000

func (s e2eStep) sql(i int) string {
	tag := strconv.Itoa(tagBase + i)
	switch s.Kind {
	case kUpdAll:
		return "UPDATE t SET s = 'x' WHERE a = " + tag
	case kDelAll:
		return "DELETE FROM t WHERE a = " + tag
	case kUpdIn:
		return fmt.Sprintf("UPDATE t SET s = 'y' WHERE k IN (%d, %d) AND a = %s", s.Key, s.Key2, tag)
	case kUpdOne:
		return fmt.Sprintf("UPDATE t SET s = 'z' WHERE k = %d AND a = %s", s.Key, tag)
	case kDelOne:
		return fmt.Sprintf("DELETE FROM t WHERE k = %d AND a = %s", s.Key, tag)
	case kInsert:
		return fmt.Sprintf("INSERT INTO t (k, a) VALUES (%d, %s)", s.Key, tag)
	case kUnshard:
		return "UPDATE u SET s = 'x' WHERE a = " + tag
	case kSelAll:
		return "SELECT id FROM t WHERE a = " + tag
	default:
		return "SELECT id FROM u WHERE a = " + tag
	}
}

func (s e2eStep) isWrite() bool { return s.Kind != kSelAll && s.Kind != kSelUn }

var reTag = regexp.MustCompile(`\b(70\d{5})\b`)

var e2eCounter int64

func checkE2E(c e2eCase) (o pbt.Outcome) {
	if c.Slices < 2 || c.Slices > 4 || c.Sessions < 1 || len(c.Steps) == 0 {
		o.Skip = "malformed case"
		return
	}
	px, err := proxyfix.Shared()
	if err != nil {
		o.Skip = "fixture: proxy: " + err.Error()
		return
	}
	n := atomic.AddInt64(&e2eCounter, 1)
	nsName := proxyfix.UniqueName("c05rep", n)
	var specs []proxyfix.SliceSpec
	var sliceNames []string
	loc := make([]int, c.Slices)
	for i := 0; i < c.Slices; i++ {
		name := fmt.Sprintf("slice-%d", i)
		specs = append(specs, proxyfix.SliceSpec{Name: name})
		sliceNames = append(sliceNames, name)
		loc[i] = 1
	}
	cl, err := proxyfix.NewCluster(specs)
	if err != nil {
		o.Skip = "fixture: cluster: " + err.Error()
		return
	}
	defer cl.Close()
	sliceIdx := map[string]int{}
	for i, name := range sliceNames {
		sliceIdx[name] = i
		idx := i
		cl.Masters[name].Handler = func(_ *fakemysql.Conn, sql string) fakemysql.Reply {
			m := reTag.FindString(sql)
			if m == "" {
				return fakemysql.Reply{Unhandled: true}
			}
			step, _ := strconv.Atoi(m)
			step -= tagBase
			if step < 0 || step >= len(c.Steps) {
				return fakemysql.Reply{Unhandled: true}
			}
			st := c.Steps[step]
			if !st.isWrite() {
				rows := [][][]byte{{[]byte(strconv.Itoa(idx))}}
				return fakemysql.Reply{Result: &fakemysql.ResultSet{Cols: []fakemysql.Column{{Name: "id", Type: fakemysql.TypeLongLong, Flags: 0x81, Charset: 63, Length: 20}}, Rows: rows}}
			}
			return fakemysql.Reply{Affected: st.Counts[idx%len(st.Counts)]}
		}
	}
	var users []*models.User
	for i := 0; i < c.Sessions; i++ {
		users = append(users, &models.User{UserName: fmt.Sprintf("%su%d", nsName, i), Password: "pw", RWFlag: models.ReadWrite})
	}
	ns := proxyfix.BaseNamespace(nsName, cl.SliceConfigs(specs), users)
	ns.ShardRules = []*models.Shard{{DB: "db", Table: "t", Type: "mod", Key: "k", Locations: loc, Slices: sliceNames}}
	if err := px.Install(ns); err != nil {
		o.Skip = "fixture: install: " + err.Error()
		return
	}
	defer px.Remove(nsName)
	var conns []*rawclient.Conn
	for i := 0; i < c.Sessions; i++ {
		cn, err := px.Dial(users[i].UserName, "pw", "db", 0)
		if err != nil {
			o.Skip = "fixture: dial: " + err.Error()
			return
		}
		defer cn.Close()
		conns = append(conns, cn)
	}

	type answer struct {
		affected uint64
		ok       bool
	}
	answers := make([]answer, len(c.Steps))
	for i, st := range c.Steps {
		res, err := conns[st.Sess%len(conns)].Exec(st.sql(i))
		if err != nil {
			o.Skip = "client i/o error: " + err.Error()
			return
		}
		if res.Err != nil {
			o.Labels = append(o.Labels, "statement_rejected")
			continue
		}
		if st.isWrite() {
			if !res.OK {
				o.Violation = fmt.Sprintf("step %d %q: a write was answered with a result set", i, st.sql(i))
				return
			}
			answers[i] = answer{res.Affected, true}
		}
	}
	// what the backends reported, per step
	reported := make([]uint64, len(c.Steps))
	shards := make([]int, len(c.Steps))
	for _, ev := range cl.Events() {
		if ev.Kind != "query" || ev.Outcome != "ok" {
			continue
		}
		m := reTag.FindString(ev.SQL)
		if m == "" {
			continue
		}
		step, _ := strconv.Atoi(m)
		step -= tagBase
		if step < 0 || step >= len(c.Steps) || !c.Steps[step].isWrite() {
			continue
		}
		reported[step] += c.Steps[step].Counts[sliceIdx[ev.Slice]%len(c.Steps[step].Counts)]
		shards[step]++
	}
	earlierWrite := false
	for i, st := range c.Steps {
		o.Labels = append(o.Labels, "stmt_"+st.Kind)
		if !st.isWrite() || !answers[i].ok {
			continue
		}
		if shards[i] >= 2 {
			o.Labels = append(o.Labels, "merged_write")
			if earlierWrite {
				o.NonTrivial = true
			}
		}
		if shards[i] == 0 {
			o.Labels = append(o.Labels, "write_reached_no_backend")
		}
		if answers[i].affected != reported[i] {
			var hist []string
			for j := 0; j <= i; j++ {
				hist = append(hist, fmt.Sprintf("[s%d] %s -> client %d, backends %d on %d shards", c.Steps[j].Sess, c.Steps[j].sql(j), answers[j].affected, reported[j], shards[j]))
			}
			o.Violation = fmt.Sprintf("step %d: the OK packet reports %d affected rows, the backends reported %d in total for its %d per-shard statements; history: %s",
				i, answers[i].affected, reported[i], shards[i], strings.Join(hist, " | "))
			return
		}
		if reported[i] > 0 {
			earlierWrite = true
		}
	}
	if c.Sessions > 1 {
		o.Labels = append(o.Labels, "two_sessions")
	}
	return
}

func TestC05Reported(t *testing.T) {
	if _, err := proxyfix.Shared(); err != nil {
		t.Fatalf("fixture: the shared proxy did not start: %v", err) // inconclusive, not a violation
	}
	pbt.Run(t, pbt.Spec{ID: "C05", Sub: "reported", Quick: 60, Thorough: 600,
		Rule: "live proxy, mod rule over 2-3 slices, simulated backends answering every per-shard UPDATE/DELETE/INSERT with a drawn affected-row count; 3-8 statements (multi-shard / IN-list / single-shard / unsharded writes, sharded and unsharded SELECTs) on one session or on two alternating sessions; every OK packet's affected rows must equal the sum the backends reported for that statement; non-trivial = a write merged from at least two shards follows an earlier write with a non-zero count (a pooled result has been written out and freed before)",
		Floor: 0.5}, genE2E, checkE2E)
}
