//go:build verif

// C05 UPDATE and DELETE affect exactly the matching rows and never move a row.
package c05

import (
	"encoding/json"
	"fmt"
	"os"
	"sort"
	"strings"
	"testing"

	"github.com/XiaoMi/Gaea/mysql"
	"github.com/XiaoMi/Gaea/parser/ast"
	"github.com/XiaoMi/Gaea/util"
	"pgregory.net/rapid"

	"verifharness/internal/pbt"
	"verifharness/internal/shardfix"
	"verifharness/internal/shardsim"
	"verifharness/internal/sqlmodel"
)

type c05Case struct {
	Layout    shardfix.Layout `json:"layout"`
	Data      shardsim.Data   `json:"data"`
	SQL       string          `json:"sql"`
	FoundRows bool            `json:"found_rows"` // backend connections opened with CLIENT_FOUND_ROWS
}

func genCase(t *rapid.T) c05Case {
	l := shardsim.GenLayout(t)
	g, err := shardsim.NewGen(t, l)
	if err != nil {
		t.Fatalf("generated layout rejected: %v", err)
	}
	c := c05Case{Layout: l}
	rows := 30
	if pbt.Tier() == "thorough" {
		rows = 120
	}
	c.Data = g.GenData(rows)
	switch k := rapid.IntRange(0, 9).Draw(t, "stmt_kind"); {
	case k < 5:
		c.SQL, _ = g.Update()
	case k < 8:
		c.SQL = g.Delete()
	default:
		c.SQL, _ = g.InsertDup(c.Data)
	}
	c.FoundRows = rapid.Bool().Draw(t, "found_rows")
	return c
}

// assignsKey reports whether the statement assigns the sharding column of t,
// and whether every such assignment is the no-op "k = k" (which does not give
// the column a new value, so the property does not demand its rejection).
func assignsKey(st ast.StmtNode) (touch, selfOnly bool) {
	selfOnly = true
	visit := func(list []*ast.Assignment) {
		for _, a := range list {
			if a.Column.Name.L != shardfix.Key {
				continue
			}
			touch = true
			if cn, ok := a.Expr.(*ast.ColumnNameExpr); !ok || cn.Name.Name.L != shardfix.Key {
				selfOnly = false
			}
		}
	}
	switch s := st.(type) {
	case *ast.UpdateStmt:
		visit(s.List)
	case *ast.InsertStmt:
		visit(s.OnDuplicate)
	}
	return touch, touch && selfOnly
}

func stmtKind(st ast.StmtNode) string {
	switch s := st.(type) {
	case *ast.UpdateStmt:
		return "update"
	case *ast.DeleteStmt:
		return "delete"
	case *ast.InsertStmt:
		if len(s.OnDuplicate) > 0 {
			return "insert_on_duplicate"
		}
		return "insert"
	}
	return "other"
}

type evaluation struct {
	skip      string
	rejected  string
	panicked  bool
	violation string
	class     string // "rows", "moved", "affected", "key-assignment", "error-after-change"
	w         *shardsim.World
	st        ast.StmtNode
	touchKey  bool // assigns a new value to the sharding column
	selfKey   bool // only assigns k = k
	changed   int // rows the reference statement changed or removed or added
	unchanged int
	tables    int // physical tables on which Gaea's statements changed rows
}

func multiset(rows [][]sqlmodel.Value) map[string]int {
	m := map[string]int{}
	for _, r := range rows {
		m[sqlmodel.RowKey(r)]++
	}
	return m
}

func diffText(got, want map[string]int) string {
	var miss, extra []string
	for k, n := range want {
		if got[k] < n {
			miss = append(miss, fmt.Sprintf("%s x%d", k, n-got[k]))
		}
	}
	for k, n := range got {
		if want[k] < n {
			extra = append(extra, fmt.Sprintf("%s x%d", k, n-want[k]))
		}
	}
	sort.Strings(miss)
	sort.Strings(extra)
	if len(miss) > 4 {
		miss = append(miss[:4], "...")
	}
	if len(extra) > 4 {
		extra = append(extra[:4], "...")
	}
	return fmt.Sprintf("rows only in the reference: [%s]; rows only on the shards: [%s]", strings.Join(miss, "; "), strings.Join(extra, "; "))
}

func evaluate(c c05Case) (ev evaluation) {
	w, err := shardsim.Build(c.Layout, c.Data)
	if err != nil {
		ev.skip = "malformed case: " + err.Error()
		return
	}
	refw, _ := shardsim.Build(c.Layout, c.Data)
	opt := sqlmodel.ExecOptions{FoundRows: c.FoundRows}
	w.Opt = opt
	ev.w = w
	st, err := sqlmodel.Parse(c.SQL)
	if err != nil {
		ev.skip = "statement does not parse"
		return
	}
	ev.st = st
	touch, selfOnly := assignsKey(st)
	ev.touchKey = touch && !selfOnly
	ev.selfKey = selfOnly
	before := map[int]map[string]int{}
	for idx, rows := range w.ShardRows() {
		before[idx] = multiset(rows)
	}
	reft, _ := refw.Union.Lookup("", shardfix.Table)
	refBefore := multiset(reft.Rows)
	nBefore := len(reft.Rows)

	var refRes *sqlmodel.ExecResult
	if !ev.touchKey {
		refRes, err = sqlmodel.ExecStmt(st, refw.Union, opt)
		if err != nil {
			if _, ok := err.(*sqlmodel.Unsupported); ok {
				ev.skip = "evaluator: " + err.Error()
			} else {
				ev.skip = "a single database rejects the statement"
			}
			return
		}
		refAfter := multiset(reft.Rows)
		for k, n := range refBefore {
			m := refAfter[k]
			if m > n {
				m = n
			}
			ev.unchanged += m
		}
		ev.changed = nBefore - ev.unchanged
		if len(reft.Rows) > nBefore {
			ev.changed += len(reft.Rows) - nBefore
		}
	}

	// Gaea
	p, perr, pan, _ := w.F.Plan(shardfix.DB, c.SQL)
	var res *mysql.Result
	switch {
	case pan != "":
		ev.rejected, ev.panicked = "panic in BuildPlan: "+pan, true
	case perr != nil:
		ev.rejected = "BuildPlan: " + perr.Error()
	default:
		rec := shardfix.NewRecorder()
		rec.Exec = w.ExecStmt
		var xerr error
		if pn := pbt.Catch(func() { res, xerr = p.ExecuteIn(util.NewRequestContext(), rec) }); pn != "" {
			ev.rejected, ev.panicked = "panic in ExecuteIn: "+pn, true
		} else if xerr != nil {
			ev.rejected = "ExecuteIn: " + xerr.Error()
		}
	}
	if len(w.Unsupported) > 0 {
		ev.skip = "evaluator (shard side): " + w.Unsupported[0]
		return
	}
	after := w.ShardRows()
	for idx, rows := range after {
		m := multiset(rows)
		same := len(m) == len(before[idx])
		for k, n := range m {
			if before[idx][k] != n {
				same = false
			}
		}
		if !same {
			ev.tables++
		}
	}

	if ev.touchKey {
		// must be rejected, with nothing executed
		if ev.rejected == "" {
			ev.class, ev.violation = "key-assignment", "the statement assigns the sharding column and was accepted"
		} else if len(w.Trace) > 0 {
			ev.class, ev.violation = "key-assignment", fmt.Sprintf("the statement assigns the sharding column; it was rejected (%s) but %d statements had already reached the backends", ev.rejected, len(w.Trace))
		}
		return
	}
	if ev.rejected != "" {
		if ev.tables > 0 {
			ev.class, ev.violation = "error-after-change", fmt.Sprintf("an error was reported (%s) although rows were changed on %d tables", ev.rejected, ev.tables)
		}
		return
	}

	// (a) the union of the shards equals the reference table
	var all [][]sqlmodel.Value
	for _, tl := range w.F.Tables {
		all = append(all, after[tl.Index]...)
	}
	got, want := multiset(all), multiset(reft.Rows)
	equal := len(got) == len(want)
	for k, n := range want {
		if got[k] != n {
			equal = false
		}
	}
	if !equal {
		ev.class, ev.violation = "rows", "after the statement the shards differ from the single database: "+diffText(got, want)
		return
	}
	// (b) every row is still where its key is placed
	for _, tl := range w.F.Tables {
		for _, r := range after[tl.Index] {
			idx, ok := w.F.Place(shardsim.GoValue(c.Layout, keyOfValue(c.Layout, r[0])))
			if !ok || idx != tl.Index {
				ev.class, ev.violation = "moved", fmt.Sprintf("row %s sits in table %d but its key is placed in table %d", sqlmodel.RowKey(r), tl.Index, idx)
				return
			}
		}
	}
	// (c) affected rows
	var affected uint64
	if res != nil {
		affected = res.AffectedRows
	}
	if affected != refRes.Affected {
		ev.class, ev.violation = "affected", fmt.Sprintf("reported %d affected rows, a single database reports %d", affected, refRes.Affected)
	}
	return
}

func keyOfValue(l shardfix.Layout, v sqlmodel.Value) shardsim.Key {
	switch l.KeyType {
	case shardfix.KeyStr, shardfix.KeyDatetime:
		return shardsim.Key{S: v.S}
	}
	return shardsim.Key{I: v.I}
}

// No finding of C05 is open: the two routing defects it inherited from C01
// (C05-F1/F2) are repaired in /repo, their witnesses are expect-pass
// regression cases, and every failure is reported as a violation.

func checkCase(c c05Case) (o pbt.Outcome) {
	ev := evaluate(c)
	if ev.skip != "" {
		o.Skip = ev.skip
		return
	}
	kind := stmtKind(ev.st)
	o.Labels = append(o.Labels, "rule_"+c.Layout.Kind, "stmt_"+kind)
	if ev.touchKey {
		o.Labels = append(o.Labels, "assigns_key", "assigns_key_"+kind)
	}
	if ev.selfKey {
		o.Labels = append(o.Labels, "assigns_key_to_itself")
	}
	if ev.rejected != "" {
		o.Labels = append(o.Labels, "rejected")
		if ev.panicked {
			o.Labels = append(o.Labels, "rejected_by_panic")
		}
	} else {
		o.Labels = append(o.Labels, "executed")
		if len(ev.w.Trace) >= 2 {
			o.Labels = append(o.Labels, "multi_shard")
		}
		if ev.tables >= 2 {
			o.Labels = append(o.Labels, "changed_on_several_tables")
		}
	}
	o.NonTrivial = ev.touchKey || (ev.rejected == "" && ev.changed >= 1 && ev.unchanged >= 1)
	if ev.violation == "" {
		return
	}
	o.Violation = fmt.Sprintf("[%s] %s: %s", ev.class, c.SQL, ev.violation)
	return
}

func TestC05Modify(t *testing.T) {
	pbt.Run(t, pbt.Spec{ID: "C05", Sub: "modify", Quick: 3000, Thorough: 20000,
		Rule: "layout of every rule type; 0-30 rows placed by the rule's own placement; one UPDATE (1-3 assignments to non-key columns, qualified / aliased targets, sometimes the key), DELETE or INSERT ... ON DUPLICATE KEY UPDATE, WHERE of the C01 grammar, optional ORDER BY, no LIMIT; backend connections with and without CLIENT_FOUND_ROWS; non-trivial = the statement assigns the sharding column, or it was executed and changes at least one row while leaving at least one unchanged",
		Floor: 0.4}, genCase, checkCase)
}

// TestExploreC05 tallies failure classes over many cases (VERIF_EXPLORE=1, development aid).
func TestExploreC05(t *testing.T) {
	if os.Getenv("VERIF_EXPLORE") == "" {
		t.Skip("set VERIF_EXPLORE")
	}
	type bucket struct {
		n  int
		ex string
	}
	buckets := map[string]*bucket{}
	total, nontrivial := 0, 0
	stats := map[string]int{}
	rapid.Check(t, func(rt *rapid.T) {
		c := genCase(rt)
		o := checkCase(c)
		if o.Skip != "" {
			stats["SKIP "+o.Skip]++
			return
		}
		total++
		if o.NonTrivial {
			nontrivial++
		}
		for _, l := range o.Labels {
			if l == "rejected" || l == "rejected_by_panic" || l == "assigns_key" {
				stats[l]++
			}
		}
		if os.Getenv("VERIF_EXPLORE_REJ") != "" {
			if ev := evaluate(c); ev.rejected != "" && !ev.touchKey {
				r := ev.rejected
				if len(r) > 100 {
					r = r[:100]
				}
				stats["REJ "+r]++
			}
		}
		msg := o.Violation
		if o.Known != "" {
			msg = "KNOWN " + o.Known
		}
		if msg == "" {
			return
		}
		key := msg
		if i := strings.Index(key, "]"); i > 0 && o.Known == "" {
			key = key[:i+1] + " " + stmtKind(mustParse(c.SQL))
		}
		b := buckets[key]
		if b == nil {
			b = &bucket{}
			buckets[key] = b
			if o.Known == "" {
				cj, _ := json.Marshal(c)
				os.MkdirAll("/verif/build/fail", 0o755)
				os.WriteFile(fmt.Sprintf("/verif/build/fail/C05-explore-%d.json", len(buckets)),
					[]byte(fmt.Sprintf(`{"property":"C05","sub":"modify","expect":"pass","case":%s}`, cj)), 0o644)
			}
		}
		b.n++
		if b.ex == "" || len(msg) < len(b.ex) {
			b.ex = msg
		}
	})
	fmt.Printf("explore: %d evaluated, %d non-trivial\n", total, nontrivial)
	var sk []string
	for k, n := range stats {
		sk = append(sk, fmt.Sprintf("%6d %s", n, k))
	}
	sort.Strings(sk)
	fmt.Println(strings.Join(sk, "\n"))
	keys := make([]string, 0, len(buckets))
	for k := range buckets {
		keys = append(keys, k)
	}
	sort.Slice(keys, func(i, j int) bool { return buckets[keys[i]].n > buckets[keys[j]].n })
	for _, k := range keys {
		ex := buckets[k].ex
		if len(ex) > 800 {
			ex = ex[:800]
		}
		fmt.Printf("%5d  %s\n         e.g. %s\n", buckets[k].n, k, ex)
	}
}

func mustParse(sql string) ast.StmtNode {
	st, _ := sqlmodel.Parse(sql)
	return st
}

// TestDebugC05 prints the details of one saved case (VERIF_DEBUG=<file>).
func TestDebugC05(t *testing.T) {
	p := os.Getenv("VERIF_DEBUG")
	if p == "" {
		t.Skip("set VERIF_DEBUG")
	}
	b, err := os.ReadFile(p)
	if err != nil {
		t.Fatal(err)
	}
	var rf struct {
		Case c05Case `json:"case"`
	}
	if err := json.Unmarshal(b, &rf); err != nil {
		t.Fatal(err)
	}
	c := rf.Case
	ev := evaluate(c)
	fmt.Printf("layout: %+v\nsql: %s\nskip=%q rejected=%q class=%q touchKey=%v changed=%d unchanged=%d\nviolation: %s\n", c.Layout, c.SQL, ev.skip, ev.rejected, ev.class, ev.touchKey, ev.changed, ev.unchanged, ev.violation)
	if ev.w != nil {
		for _, tr := range ev.w.Trace {
			fmt.Printf("  -> %s/%s matched=%d affected=%d err=%s: %s\n", tr.Stmt.Slice, tr.Stmt.DB, tr.Matched, tr.Affected, tr.Err, tr.Stmt.SQL)
		}
	}
	o := checkCase(c)
	fmt.Printf("outcome: known=%q violation=%q nontrivial=%v\n", o.Known, o.Violation, o.NonTrivial)
}
