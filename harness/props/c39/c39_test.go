//go:build verif

// C39 Results are complete or an error, never silently truncated.
//
// Black-box against a live proxy (internal/proxyfix) with simulated MySQL
// backends (internal/fakemysql): the backends generate results lazily from the
// case (row counts around the namespace row limit, row sizes from bytes to
// 2 MiB with totals straddling the 16 MiB threshold at which the backend reader
// stops and leaves the rest for streaming); the client (internal/rawclient,
// text protocol or prepare/execute) must receive an error or exactly the rows
// the backends produced.
package c39

import (
	"bytes"
	"encoding/binary"
	"fmt"
	"regexp"
	"sort"
	"strconv"
	"strings"
	"sync"
	"sync/atomic"
	"testing"
	"time"

	"github.com/XiaoMi/Gaea/models"
	"pgregory.net/rapid"

	"verifharness/internal/fakemysql"
	"verifharness/internal/pbt"
	"verifharness/internal/proxyfix"
	"verifharness/internal/rawclient"
)

const streamThreshold = 1<<24 - 1 // the backend reader stops after this many row bytes

type c39Case struct {
	// Limit is the namespace MaxSqlResultSize: -1 unlimited, 1..50 rows per backend result.
	Limit int `json:"limit"`
	// Mode: "unshard" (table without rule, default slice), "single" (sharded table, key equality: one sub-table),
	// "slice" (sharded table, key IN (a, b) picking the first two sub-tables, which live on the SAME slice: the
	// route is confined to one slice but covers two physical tables; needs Locations[0] >= 2),
	// "multi" (sharded table, no key condition: every sub-table).
	Mode string `json:"mode"`
	// Locations is the number of sub-tables per slice of the mod rule (len = number of slices, 1..3).
	Locations []int `json:"locations"`
	// Rows[t] is the number of rows sub-table t holds (unshard: Rows[0]).
	Rows []int `json:"rows"`
	// RowBytes is the size of the payload column; row i of table t has RowBytes + (i+t)%3 bytes when Vary is set.
	RowBytes int  `json:"row_bytes"`
	Vary     bool `json:"vary"`
	// Binary selects COM_STMT_PREPARE/EXECUTE instead of COM_QUERY.
	Binary bool `json:"binary"`
	// InTx runs the statement (and the follow-up) inside BEGIN ... so that the backend connection is kept by the session.
	InTx bool `json:"in_tx"`
	// Tail: 0 nothing, 1 ORDER BY id, 2 GROUP BY id, 3 LIMIT 100000, 4 ORDER BY id LIMIT 100000, 5 ORDER BY id DESC
	// (sharded modes only; none of them removes a row: ids are unique and the LIMIT is above every total).
	Tail int `json:"tail,omitempty"`
	// Between adds "where id between 0 and 100000000" to mode "multi" (a range cannot prune a mod rule).
	Between bool `json:"between,omitempty"`
	// Key is the shard key value used by mode "single" (and the multiplier of the keys of mode "slice").
	Key  int  `json:"key"`
	Salt byte `json:"salt"`
}

func (c c39Case) tables() int {
	if c.Mode == "unshard" {
		return 1
	}
	n := 0
	for _, l := range c.Locations {
		n += l
	}
	return n
}

func (c c39Case) payloadLen(t, i int) int {
	if c.Vary {
		return c.RowBytes + (i+t)%3
	}
	return c.RowBytes
}

// ---- row content: position dependent, cheap to generate and to verify ----

var (
	blockOnce sync.Once
	block     []byte
)

const blockLen = 1 << 16

func patternBlock() []byte {
	blockOnce.Do(func() {
		block = make([]byte, 2*blockLen)
		x := uint32(2463534242)
		for i := 0; i < blockLen; i++ {
			x ^= x << 13
			x ^= x >> 17
			x ^= x << 5
			block[i] = 'a' + byte(x%26)
		}
		copy(block[blockLen:], block[:blockLen])
	})
	return block
}

// fillPayload writes the payload of row i of table t into dst.
func fillPayload(dst []byte, t, i int, salt byte) {
	b := patternBlock()
	rot := (i*7919 + t*104729 + int(salt)*31) % blockLen
	hdr := fmt.Sprintf("<%d:%d>", t, i)
	n := copy(dst, hdr)
	for n < len(dst) {
		n += copy(dst[n:], b[rot:rot+blockLen])
		rot = (rot + 1) % blockLen // every block starts one further: a shifted or dropped block is visible
	}
}

func (c c39Case) rowID(t, i int) int { return t + i*c.tables() }

func (c c39Case) note(t, i int) []byte {
	if (i+t)%5 == 3 {
		return nil
	}
	return []byte(fmt.Sprintf("r%d-%d", t, i))
}

func (c c39Case) genRow(t, i int) [][]byte {
	p := make([]byte, c.payloadLen(t, i))
	fillPayload(p, t, i, c.Salt)
	return [][]byte{[]byte(strconv.Itoa(c.rowID(t, i))), p, c.note(t, i)}
}

// ---- generator ----

func genSmall(t *rapid.T) c39Case {
	var c c39Case
	if rapid.IntRange(0, 5).Draw(t, "unlimited") == 0 {
		c.Limit = -1
	} else {
		c.Limit = rapid.IntRange(1, 50).Draw(t, "limit")
	}
	c.Mode = rapid.SampledFrom([]string{"unshard", "single", "multi", "multi", "slice"}).Draw(t, "mode")
	ns := rapid.IntRange(2, 3).Draw(t, "slices")
	if c.Mode == "unshard" {
		ns = rapid.IntRange(1, 2).Draw(t, "slices_u")
	}
	for i := 0; i < ns; i++ {
		c.Locations = append(c.Locations, rapid.SampledFrom([]int{1, 1, 1, 2}).Draw(t, "loc"))
	}
	if c.Mode == "slice" {
		c.Locations[0] = 2 // two physical tables on slice-0
	}
	if c.Mode != "unshard" && rapid.Bool().Draw(t, "has_tail") {
		c.Tail = rapid.IntRange(1, 5).Draw(t, "tail")
	}
	if c.Mode == "multi" {
		c.Between = rapid.IntRange(0, 3).Draw(t, "between") == 0
	}
	nt := 0
	for _, l := range c.Locations {
		nt += l
	}
	base := c.Limit
	if base < 0 {
		base = rapid.IntRange(0, 60).Draw(t, "rows_base")
	}
	for i := 0; i < nt; i++ {
		var r int
		switch rapid.IntRange(0, 5).Draw(t, "rk") {
		case 0:
			r = base - 1
		case 1, 2:
			r = base
		case 3:
			r = base + 1
		case 4:
			r = rapid.IntRange(0, base).Draw(t, "rows_lo")
		default:
			r = rapid.IntRange(0, base+5).Draw(t, "rows_any")
		}
		if r < 0 {
			r = 0
		}
		c.Rows = append(c.Rows, r)
	}
	switch rapid.IntRange(0, 3).Draw(t, "sz") {
	case 0:
		c.RowBytes = rapid.IntRange(0, 8).Draw(t, "bytes")
	case 1:
		c.RowBytes = rapid.IntRange(200, 300).Draw(t, "bytes") // around the 1-byte/3-byte length prefix switch (251)
	case 2:
		c.RowBytes = rapid.IntRange(0, 2000).Draw(t, "bytes")
	default:
		c.RowBytes = rapid.SampledFrom([]int{65530, 65535, 65536, 70000}).Draw(t, "bytes")
	}
	c.Vary = rapid.Bool().Draw(t, "vary")
	c.Binary = rapid.Bool().Draw(t, "binary")
	c.InTx = rapid.IntRange(0, 3).Draw(t, "tx") == 0
	c.Key = rapid.IntRange(0, 1000).Draw(t, "key")
	c.Salt = rapid.Byte().Draw(t, "salt")
	return c
}

// genLarge: totals straddle the 16 MiB threshold (or stay well below it as a control).
func genLarge(t *rapid.T) c39Case {
	var c c39Case
	c.Mode = rapid.SampledFrom([]string{"unshard", "single", "multi"}).Draw(t, "mode")
	ns := 2
	if c.Mode == "unshard" {
		ns = 1
	}
	for i := 0; i < ns; i++ {
		c.Locations = append(c.Locations, 1)
	}
	shape := rapid.IntRange(0, 5).Draw(t, "shape")
	var rows int
	switch shape {
	case 0: // 9 x 2 MiB = 18 MiB
		c.RowBytes, rows = 2<<20, 9
	case 1: // 8 x 2 MiB: the threshold is crossed by the last row
		c.RowBytes, rows = 2<<20, 8
	case 2: // 5 x 2 MiB = 10 MiB, well below
		c.RowBytes, rows = 2<<20, 5
	case 3: // 17-20 x 1 MiB
		c.RowBytes, rows = 1<<20, rapid.IntRange(16, 20).Draw(t, "rows1m")
	case 4: // many medium rows: 40 x 450 KiB ~ 17.6 MiB
		c.RowBytes, rows = 450<<10, rapid.IntRange(36, 40).Draw(t, "rows450k")
	default: // 11-13 x 1.5 MiB
		c.RowBytes, rows = 3<<19, rapid.IntRange(10, 13).Draw(t, "rows15m")
	}
	// the row limit: unlimited, far above, or within one of the row count
	switch rapid.IntRange(0, 4).Draw(t, "lk") {
	case 0, 1:
		c.Limit = -1
	case 2:
		c.Limit = 50
	case 3:
		c.Limit = rows // rows == limit
	default:
		c.Limit = rows - 1 // one more than the limit: must be an error
	}
	if c.Limit > 50 {
		c.Limit = 50
	}
	for i := 0; i < ns; i++ {
		if i == 0 {
			c.Rows = append(c.Rows, rows)
		} else {
			c.Rows = append(c.Rows, rapid.SampledFrom([]int{0, 1, 3}).Draw(t, "rows_other"))
		}
	}
	c.Binary = rapid.Bool().Draw(t, "binary")
	c.InTx = rapid.IntRange(0, 3).Draw(t, "tx") == 0
	c.Key = 0 // sub-table 0 holds the big result
	c.Salt = rapid.Byte().Draw(t, "salt")
	return c
}

// ---- fixture ----

var caseSeq int64

var reSub = regexp.MustCompile("(?i)tbl_s_(\\d{4})")

// transportRe: error texts that speak of the proxy's path to its backends, not of the result
var transportRe = regexp.MustCompile(`(?i)time ?out|timed out|deadline|connection|broken pipe|\bEOF\b|reset by peer|create resource|bad conn|invalid conn|i/o|\bpool\b|no alive|backendconn|get conn|unavailable|refused`)

type backendLedger struct {
	mu       sync.Mutex
	executed map[int]int // table -> how many times its statement was answered
	produced map[int]int // table -> rows written by the backend (last execution)
	followUp int
}

const followSQL = "select id, note from tbl_u where id = 424242"

func (c c39Case) install(p *proxyfix.Proxy, led *backendLedger) (cl *proxyfix.Cluster, user string, cleanup func(), err error) {
	n := atomic.AddInt64(&caseSeq, 1)
	nsName := proxyfix.UniqueName("c39ns", n)
	user = proxyfix.UniqueName("c39u", n)
	var specs []proxyfix.SliceSpec
	for i := range c.Locations {
		specs = append(specs, proxyfix.SliceSpec{Name: fmt.Sprintf("slice-%d", i), Capacity: 2, MaxCapacity: 4})
	}
	cl, err = proxyfix.NewCluster(specs)
	if err != nil {
		return nil, "", nil, err
	}
	cols := []fakemysql.Column{
		{Name: "id", Type: fakemysql.TypeLongLong, Flags: 0x0001 | 0x0080, Charset: 63, Length: 20},
		{Name: "payload", Type: fakemysql.TypeVarString, Charset: 45, Length: 1 << 24},
		{Name: "note", Type: fakemysql.TypeVarString, Charset: 45, Length: 64},
	}
	// first sub-table index of each slice
	first := map[string]int{}
	acc := 0
	for i, l := range c.Locations {
		first[fmt.Sprintf("slice-%d", i)] = acc
		acc += l
	}
	cc := c
	for _, s := range cl.All() {
		srv := s
		srv.Handler = func(conn *fakemysql.Conn, sql string) fakemysql.Reply {
			low := strings.ToLower(sql)
			if strings.Contains(low, "424242") {
				led.mu.Lock()
				led.followUp++
				led.mu.Unlock()
				return fakemysql.Reply{Result: &fakemysql.ResultSet{Cols: []fakemysql.Column{cols[0], cols[2]},
					Rows: [][][]byte{{[]byte("424242"), []byte("after")}}}}
			}
			if !strings.HasPrefix(strings.TrimSpace(low), "select") {
				return fakemysql.Reply{Unhandled: true}
			}
			t := -1
			if m := reSub.FindStringSubmatch(sql); m != nil {
				t, _ = strconv.Atoi(m[1])
			} else if strings.Contains(low, "tbl_u") {
				t = 0
			}
			if t < 0 || t >= len(cc.Rows) {
				return fakemysql.Reply{Unhandled: true}
			}
			// a sub-table lives on exactly one slice: a statement for it on another backend is a routing matter (C01), answer empty
			if cc.Mode != "unshard" {
				lo := first[srv.Slice]
				var hi int
				for i, l := range cc.Locations {
					if fmt.Sprintf("slice-%d", i) == srv.Slice {
						hi = lo + l
					}
				}
				if t < lo || t >= hi {
					return fakemysql.Reply{Result: &fakemysql.ResultSet{Cols: cols}}
				}
			}
			led.mu.Lock()
			led.executed[t]++
			led.produced[t] = 0
			led.mu.Unlock()
			return fakemysql.Reply{Result: &fakemysql.ResultSet{Cols: cols, NRows: cc.Rows[t], RowGen: func(i int) [][]byte {
				led.mu.Lock()
				led.produced[t] = i + 1
				led.mu.Unlock()
				return cc.genRow(t, i)
			}}}
		}
	}
	slices := cl.SliceConfigs(specs)
	for _, sl := range slices {
		sl.HandshakeTimeout = 30000 // ms; the default of 500 ms is easily missed on a loaded machine
	}
	ns := proxyfix.BaseNamespace(nsName, slices, []*models.User{{UserName: user, Password: "pw", RWFlag: 2, RWSplit: 0}})
	ns.MaxSqlResultSize = c.Limit
	if c.Mode != "unshard" {
		var slices []string
		for i := range c.Locations {
			slices = append(slices, fmt.Sprintf("slice-%d", i))
		}
		ns.ShardRules = []*models.Shard{{DB: "db", Table: "tbl_s", Type: models.ShardMod, Key: "id", Locations: c.Locations, Slices: slices}}
	}
	if err = p.Install(ns); err != nil {
		cl.Close()
		return nil, "", nil, fmt.Errorf("install namespace: %v", err)
	}
	cleanup = func() {
		p.Remove(nsName)
		cl.Close()
	}
	return cl, user, cleanup, nil
}

// ---- client side decoding of binary rows (written from the protocol description) ----

func decodeBinaryRow(cols []rawclient.Column, p []byte) ([][]byte, error) {
	if len(p) < 1 || p[0] != 0 {
		return nil, fmt.Errorf("binary row does not start with 0x00")
	}
	bm := (len(cols) + 7 + 2) / 8
	if len(p) < 1+bm {
		return nil, fmt.Errorf("binary row shorter than its null bitmap")
	}
	bitmap := p[1 : 1+bm]
	pos := 1 + bm
	row := make([][]byte, len(cols))
	for k, col := range cols {
		if bitmap[(k+2)/8]&(1<<(uint(k+2)%8)) != 0 {
			continue
		}
		fixed := 0
		switch col.Type {
		case 1:
			fixed = 1
		case 2, 13:
			fixed = 2
		case 3, 9:
			fixed = 4
		case 8:
			fixed = 8
		}
		if fixed > 0 {
			if pos+fixed > len(p) {
				return nil, fmt.Errorf("binary row truncated in column %d", k)
			}
			var u uint64
			for j := fixed - 1; j >= 0; j-- {
				u = u<<8 | uint64(p[pos+j])
			}
			pos += fixed
			if col.Flags&0x20 != 0 {
				row[k] = []byte(strconv.FormatUint(u, 10))
			} else {
				sh := uint(64 - 8*fixed)
				row[k] = []byte(strconv.FormatInt(int64(u<<sh)>>sh, 10))
			}
			continue
		}
		n, np, null, ok := rawclient.ReadLenEnc(p, pos)
		if !ok || null || uint64(len(p)-np) < n {
			return nil, fmt.Errorf("binary row: bad length-encoded value in column %d (type %d)", k, col.Type)
		}
		row[k] = append([]byte{}, p[np:np+int(n)]...)
		pos = np + int(n)
	}
	if pos != len(p) {
		return nil, fmt.Errorf("binary row has %d trailing bytes", len(p)-pos)
	}
	return row, nil
}

// ---- the property ----

func (c c39Case) statement() (sql string, params []rawclient.Param) {
	i64 := func(v int) rawclient.Param {
		b := make([]byte, 8)
		binary.LittleEndian.PutUint64(b, uint64(v))
		return rawclient.Param{Type: 8, Value: b}
	}
	tail := ""
	if c.Mode != "unshard" {
		tail = []string{"", " order by id", " group by id", " limit 100000", " order by id limit 100000", " order by id desc"}[c.Tail%6]
	}
	switch c.Mode {
	case "unshard":
		return "select id, payload, note from tbl_u", nil
	case "single":
		if c.Binary {
			return "select id, payload, note from tbl_s where id = ?" + tail, []rawclient.Param{i64(c.Key)}
		}
		return fmt.Sprintf("select id, payload, note from tbl_s where id = %d", c.Key) + tail, nil
	case "slice":
		// keys of sub-table 0 and sub-table 1, both on slice-0
		k0 := (c.Key % 50) * c.tables()
		k1 := k0 + 1
		if c.Binary {
			return "select id, payload, note from tbl_s where id in (?, ?)" + tail, []rawclient.Param{i64(k0), i64(k1)}
		}
		return fmt.Sprintf("select id, payload, note from tbl_s where id in (%d, %d)", k0, k1) + tail, nil
	}
	if c.Between {
		if c.Binary {
			return "select id, payload, note from tbl_s where id between ? and ?" + tail, []rawclient.Param{i64(0), i64(100000000)}
		}
		return "select id, payload, note from tbl_s where id between 0 and 100000000" + tail, nil
	}
	return "select id, payload, note from tbl_s" + tail, nil
}

func checkC39(c c39Case) (o pbt.Outcome) {
	nt := c.tables()
	if nt < 1 || len(c.Rows) < nt || c.RowBytes < 0 || c.RowBytes > 4<<20 || (c.Mode == "slice" && (len(c.Locations) == 0 || c.Locations[0] < 2)) {
		o.Skip = "malformed case"
		return
	}
	p, err := proxyfix.Shared()
	if err != nil {
		o.Skip = "fixture: " + err.Error()
		return
	}
	led := &backendLedger{executed: map[int]int{}, produced: map[int]int{}}
	_, user, cleanup, err := c.install(p, led)
	if err != nil {
		o.Skip = "fixture: " + err.Error()
		return
	}
	defer cleanup()

	cli, err := p.Dial(user, "pw", "db", 0)
	if err != nil {
		o.Skip = "fixture: dial: " + err.Error()
		return
	}
	defer cli.Close()
	cli.Timeout = 300 * time.Second

	if c.InTx {
		if r, err := cli.Exec("begin"); err != nil || r.Err != nil {
			o.Skip = fmt.Sprintf("fixture: begin failed: %v %v", err, r)
			return
		}
	}

	sql, params := c.statement()
	var res *rawclient.Result
	var ioErr error
	if c.Binary {
		st, perr, err := cli.Prepare(sql)
		if err != nil || perr != nil {
			o.Skip = fmt.Sprintf("fixture: prepare failed: %v %v", err, perr)
			return
		}
		res, ioErr = cli.Execute(st, params)
	} else {
		var all []*rawclient.Result
		all, ioErr = cli.Query(sql)
		if len(all) > 0 {
			res = all[len(all)-1]
		}
		if len(all) > 1 {
			o.Violation = fmt.Sprintf("%d results for one statement", len(all))
			return
		}
	}

	// what the backends produced for the statement
	led.mu.Lock()
	executed := map[int]int{}
	for t, n := range led.executed {
		executed[t] = n
	}
	led.mu.Unlock()
	var tabs []int
	expectRows, maxPer, totalBytes := 0, 0, 0
	for t, n := range executed {
		tabs = append(tabs, t)
		if n > 1 {
			o.Labels = append(o.Labels, "statement_repeated_on_backend")
		}
		expectRows += c.Rows[t]
		if c.Rows[t] > maxPer {
			maxPer = c.Rows[t]
		}
		for i := 0; i < c.Rows[t]; i++ {
			totalBytes += c.payloadLen(t, i) + 12
		}
	}
	sort.Ints(tabs)

	// labels and the non-trivial rule
	o.Labels = append(o.Labels, "mode_"+c.Mode, map[bool]string{true: "proto_binary", false: "proto_text"}[c.Binary])
	if c.InTx {
		o.Labels = append(o.Labels, "in_transaction")
	}
	if c.Mode != "unshard" && c.Tail%6 != 0 {
		o.Labels = append(o.Labels, []string{"", "tail_order_by", "tail_group_by", "tail_limit", "tail_order_by_limit", "tail_order_by_desc"}[c.Tail%6])
	}
	if c.Mode == "slice" && len(tabs) == 2 {
		o.Labels = append(o.Labels, "one_slice_two_tables_routed")
	}
	nearLimit := false
	if c.Limit > 0 {
		for _, t := range tabs {
			if d := c.Rows[t] - c.Limit; d >= -1 && d <= 1 {
				nearLimit = true
				o.Labels = append(o.Labels, fmt.Sprintf("rows_limit%+d", d))
			}
		}
	} else {
		o.Labels = append(o.Labels, "unlimited")
	}
	bigPer := false
	for _, t := range tabs {
		b := 0
		for i := 0; i < c.Rows[t]; i++ {
			b += c.payloadLen(t, i) + 12
		}
		if b > streamThreshold {
			bigPer = true
		}
	}
	if bigPer {
		o.Labels = append(o.Labels, "backend_result_over_16MiB")
	}
	if totalBytes > streamThreshold {
		o.Labels = append(o.Labels, "total_over_16MiB")
	}
	o.NonTrivial = nearLimit || totalBytes > streamThreshold
	if len(tabs) == 0 {
		o.Labels = append(o.Labels, "no_backend_statement")
	} else {
		o.Labels = append(o.Labels, fmt.Sprintf("backend_statements_%d", len(tabs)))
	}

	mustErr := c.Limit > 0 && maxPer > c.Limit
	mustDeliver := c.Limit > 0 && maxPer <= c.Limit

	desc := fmt.Sprintf("mode=%s binary=%v limit=%d tables=%v rows=%v row_bytes=%d in_tx=%v locations=%v sql=%q", c.Mode, c.Binary, c.Limit, tabs, c.Rows, c.RowBytes, c.InTx, c.Locations, sql)

	gotErr := ""
	switch {
	case ioErr != nil:
		gotErr = "connection: " + ioErr.Error()
	case res == nil:
		gotErr = "no result"
	case res.Err != nil:
		gotErr = res.Err.Error()
	}

	if gotErr != "" {
		o.Labels = append(o.Labels, "outcome_error")
		if ioErr != nil {
			o.Labels = append(o.Labels, "outcome_connection_error")
		}
		if mustDeliver && len(tabs) > 0 {
			detail := fmt.Sprintf("no backend result has more rows than the limit (max %d <= limit %d) but the client received an error instead of the %d rows: %s [%s]",
				maxPer, c.Limit, expectRows, gotErr, desc)
			if ioErr != nil || (transportRe.MatchString(gotErr) && !strings.Contains(gotErr, "sql result set size exceeded")) {
				// the proxy could not reach a backend in time (pool wait, dial/handshake, socket) or the client's own
				// read deadline passed: happens on a loaded machine, says nothing about the row limit
				return pbt.Outcome{Skip: "inconclusive: transport or timeout error instead of a result"}
			}
			o.Violation = detail
			return
		}
		// an error is an allowed outcome otherwise; the session must still be usable or closed (checked below when no io error)
		if ioErr != nil {
			return
		}
		return c.followUp(cli, led, o, desc)
	}

	o.Labels = append(o.Labels, "outcome_rows")
	// exactly the rows the backends produced
	var got [][][]byte
	if c.Binary {
		for _, rp := range res.RawRows {
			row, err := decodeBinaryRow(res.Cols, rp)
			if err != nil {
				o.Violation = fmt.Sprintf("undecodable binary row: %v [%s]", err, desc)
				return
			}
			got = append(got, row)
		}
	} else {
		got = res.Rows
	}
	if len(res.Cols) != 3 {
		o.Violation = fmt.Sprintf("result has %d columns, backends sent 3 [%s]", len(res.Cols), desc)
		return
	}
	problem := ""
	seen := map[int]int{}
	tabSet := map[int]bool{}
	for _, t := range tabs {
		tabSet[t] = true
	}
	var scratch []byte
	for ri, row := range got {
		if len(row) != 3 || row[0] == nil {
			problem = fmt.Sprintf("row %d has %d cells or a NULL id", ri, len(row))
			break
		}
		id, err := strconv.Atoi(string(row[0]))
		if err != nil || id < 0 {
			problem = fmt.Sprintf("row %d has id %q which no backend produced", ri, row[0])
			break
		}
		t, i := id%nt, id/nt
		if !tabSet[t] || i >= c.Rows[t] {
			problem = fmt.Sprintf("row %d has id %d which no backend produced for this statement", ri, id)
			break
		}
		seen[id]++
		if seen[id] > 1 {
			problem = fmt.Sprintf("row with id %d delivered %d times", id, seen[id])
			break
		}
		want := c.payloadLen(t, i)
		if cap(scratch) < want {
			scratch = make([]byte, want)
		}
		scratch = scratch[:want]
		fillPayload(scratch, t, i, c.Salt)
		if row[1] == nil || !bytes.Equal(row[1], scratch) {
			at := -1
			for j := 0; j < len(row[1]) && j < want; j++ {
				if row[1][j] != scratch[j] {
					at = j
					break
				}
			}
			problem = fmt.Sprintf("row id %d: payload differs (got %d bytes want %d, first difference at %d)", id, len(row[1]), want, at)
			break
		}
		if !bytes.Equal(row[2], c.note(t, i)) || (row[2] == nil) != (c.note(t, i) == nil) {
			problem = fmt.Sprintf("row id %d: note %q want %q", id, row[2], c.note(t, i))
			break
		}
	}
	if problem == "" && len(got) != expectRows {
		var missing []string
		for _, t := range tabs {
			m := 0
			for i := 0; i < c.Rows[t]; i++ {
				if seen[c.rowID(t, i)] == 0 {
					m++
				}
			}
			if m > 0 {
				missing = append(missing, fmt.Sprintf("table %d: %d of %d missing", t, m, c.Rows[t]))
			}
		}
		problem = fmt.Sprintf("client received %d rows without an error, the backends produced %d (%s)", len(got), expectRows, strings.Join(missing, "; "))
	}
	if problem != "" {
		detail := problem + " [" + desc + "]"
		// C39-F2: a backend result over 16 MiB on the sharded execution path is cut at the threshold
		if bigPer && c.Mode != "unshard" && len(got) < expectRows && strings.HasPrefix(problem, "client received") {
			o.Known, o.KnownWhat = "C39-F2", detail
			return c.followUpAfterKnown(cli, led, o)
		}
		o.Violation = detail
		return
	}
	if mustErr {
		detail := fmt.Sprintf("a backend result has %d rows, more than the limit %d, but the client received all %d rows and no error [%s]", maxPer, c.Limit, len(got), desc)
		o.Violation = detail
		return
	}
	return c.followUp(cli, led, o, desc)
}

// followUp: the next statement on the same session must get exactly its own one-row result or an error.
func (c c39Case) followUp(cli *rawclient.Conn, led *backendLedger, o pbt.Outcome, desc string) pbt.Outcome {
	cli.Timeout = 90 * time.Second
	r, err := cli.Exec(followSQL)
	if err != nil {
		// the session was closed by the proxy: an error for the client, acceptable
		o.Labels = append(o.Labels, "followup_connection_error")
		return o
	}
	if r.Err != nil {
		o.Labels = append(o.Labels, "followup_error")
		return o
	}
	if len(r.Rows) != 1 || len(r.Rows[0]) != 2 || string(r.Rows[0][0]) != "424242" || string(r.Rows[0][1]) != "after" {
		var first string
		if len(r.Rows) > 0 && len(r.Rows[0]) > 0 {
			first = string(r.Rows[0][0])
			if len(first) > 40 {
				first = first[:40] + "..."
			}
		}
		o.Violation = fmt.Sprintf("the statement after the checked one returned %d rows (first cell %q, ok=%v) instead of the one row its backend produced [%s]", len(r.Rows), first, r.OK, desc)
	}
	return o
}

// followUpAfterKnown keeps looking behind C39-F2: the next statement must not return rows of the truncated result.
func (c c39Case) followUpAfterKnown(cli *rawclient.Conn, led *backendLedger, o pbt.Outcome) pbt.Outcome {
	o2 := c.followUp(cli, led, pbt.Outcome{}, "after a truncated result (C39-F2)")
	if o2.Violation != "" {
		// leftover rows of the truncated result answered the next statement: same root cause, reported in the same finding
		o.KnownWhat += " | next statement: " + o2.Violation
		o.Labels = append(o.Labels, "followup_read_leftover_rows")
	}
	return o
}

func TestC39Small(t *testing.T) {
	pbt.Run(t, pbt.Spec{ID: "C39", Sub: "small", Quick: 300, Thorough: 3000,
		Rule:  "namespace row limit 1-50 or unlimited; per backend result row counts limit-1/limit/limit+1 and arbitrary; rows of 0 B-70 KB; unsharded, single-shard, one-slice-two-tables (id IN picking both tables of slice-0) and multi-shard (2-3 slices, 1-2 sub-tables each, mod rule; optionally id BETWEEN) SELECT, optionally with ORDER BY / GROUP BY / LIMIT that remove no row; COM_QUERY and prepare/execute; optionally inside a transaction; non-trivial = some backend result within one row of the limit",
		Floor: 0.6}, genSmall, checkC39)
}

func TestC39Large(t *testing.T) {
	pbt.Run(t, pbt.Spec{ID: "C39", Sub: "large", Quick: 6, Thorough: 20,
		Rule:  "one backend result of 8-40 rows of 450 KiB-2 MiB (10-26 MiB: straddling the 16 MiB threshold, or well below as a control), limit unlimited/50/rows/rows-1; unsharded, single-shard, multi-shard; text and binary; non-trivial = total over 16 MiB or within one row of the limit",
		Floor: 0.6}, genLarge, checkC39)
}
