//go:build verif

// C39, sub-check "multires": one statement answered by the backend with SEVERAL
// result sets (SERVER_MORE_RESULTS_EXISTS on all but the last), as for CALL or
// for a multi-statement text that the proxy forwards as one. The row limit is
// per result set: every result set with no more rows than the limit must be
// delivered in full and in order, the first result set with more rows yields an
// error, and the statement that follows on the session gets its own result
// (nothing of the multi-result reply may be left on the pooled connection).
package c39

import (
	"bytes"
	"fmt"
	"strconv"
	"strings"
	"sync"
	"sync/atomic"
	"testing"
	"time"

	"github.com/XiaoMi/Gaea/models"
	"pgregory.net/rapid"

	"verifharness/internal/fakemysql"
	"verifharness/internal/pbt"
	"verifharness/internal/proxyfix"
)

type mrCase struct {
	Limit int `json:"limit"` // -1 unlimited, 1..50
	// Kind: "call" (CALL c39p()), "multi_text" (two or three SELECTs in one COM_QUERY; the client has no
	// CLIENT_MULTI_STATEMENTS and the namespace no support_multi_query, so the text is not split by the proxy)
	Kind string `json:"kind"`
	// Sizes[k] is the row count of the k-th result set of the reply (2-3 entries)
	Sizes []int `json:"sizes"`
	// TrailingOK: the reply ends with an OK packet after the result sets (as CALL does)
	TrailingOK bool `json:"trailing_ok"`
	RowBytes   int  `json:"row_bytes"`
	InTx       bool `json:"in_tx"`
	// Repeat: the statement is sent this many times (1-2) before the follow-up
	Repeat int  `json:"repeat"`
	Salt   byte `json:"salt"`
}

func genMR(t *rapid.T) mrCase {
	var c mrCase
	if rapid.IntRange(0, 5).Draw(t, "unlimited") == 0 {
		c.Limit = -1
	} else {
		c.Limit = rapid.IntRange(1, 50).Draw(t, "limit")
	}
	c.Kind = rapid.SampledFrom([]string{"call", "call", "multi_text"}).Draw(t, "kind")
	n := rapid.IntRange(2, 3).Draw(t, "nsets")
	base := c.Limit
	if base < 0 {
		base = rapid.IntRange(0, 40).Draw(t, "base")
	}
	// mostly: every set within the limit while the sum exceeds it; sometimes one set over the limit
	over := rapid.IntRange(0, 3).Draw(t, "over") == 0
	overAt := rapid.IntRange(0, n-1).Draw(t, "over_at")
	for k := 0; k < n; k++ {
		var r int
		switch rapid.IntRange(0, 3).Draw(t, "rk") {
		case 0:
			r = base - 1
		case 1, 2:
			r = base
		default:
			r = rapid.IntRange(0, base).Draw(t, "r")
		}
		if over && k == overAt {
			r = base + 1
		}
		if r < 0 {
			r = 0
		}
		c.Sizes = append(c.Sizes, r)
	}
	c.TrailingOK = c.Kind == "call" && rapid.IntRange(0, 3).Draw(t, "ok") != 0
	c.RowBytes = rapid.SampledFrom([]int{0, 3, 40, 260, 2000}).Draw(t, "bytes")
	c.InTx = rapid.IntRange(0, 3).Draw(t, "tx") == 0
	c.Repeat = rapid.IntRange(1, 2).Draw(t, "repeat")
	c.Salt = rapid.Byte().Draw(t, "salt")
	return c
}

func (c mrCase) row(k, i int) [][]byte {
	p := make([]byte, c.RowBytes)
	fillPayload(p, k, i, c.Salt)
	return [][]byte{[]byte(strconv.Itoa(k*1000 + i)), p}
}

func (c mrCase) statement() string {
	if c.Kind == "call" {
		return "call c39p()"
	}
	var parts []string
	for k := range c.Sizes {
		parts = append(parts, fmt.Sprintf("select id, payload from c39mr_%d", k))
	}
	return strings.Join(parts, "; ")
}

var mrSeq int64

func checkMR(c mrCase) (o pbt.Outcome) {
	if len(c.Sizes) < 2 || len(c.Sizes) > 4 || c.RowBytes < 0 || c.RowBytes > 1<<20 || c.Repeat < 1 || c.Repeat > 3 {
		o.Skip = "malformed case"
		return
	}
	p, err := proxyfix.Shared()
	if err != nil {
		o.Skip = "fixture: " + err.Error()
		return
	}
	id := atomic.AddInt64(&mrSeq, 1)
	nsName := proxyfix.UniqueName("c39mrns", id)
	user := proxyfix.UniqueName("c39mru", id)
	specs := []proxyfix.SliceSpec{{Name: "slice-0", Capacity: 1, MaxCapacity: 1}} // one pooled connection: leftovers meet the next statement
	cl, err := proxyfix.NewCluster(specs)
	if err != nil {
		o.Skip = "fixture: " + err.Error()
		return
	}
	defer cl.Close()
	cols := []fakemysql.Column{
		{Name: "id", Type: fakemysql.TypeLongLong, Flags: 0x0001 | 0x0080, Charset: 63, Length: 20},
		{Name: "payload", Type: fakemysql.TypeVarString, Charset: 45, Length: 1 << 24},
	}
	var mu sync.Mutex
	served := 0
	stmt := c.statement()
	for _, s := range cl.All() {
		s.Handler = func(conn *fakemysql.Conn, sql string) fakemysql.Reply {
			low := strings.ToLower(sql)
			if strings.Contains(low, "424242") {
				return fakemysql.Reply{Result: &fakemysql.ResultSet{Cols: cols, Rows: [][][]byte{{[]byte("424242"), []byte("after")}}}}
			}
			if !strings.Contains(low, "c39p") && !strings.Contains(low, "c39mr_") {
				return fakemysql.Reply{Unhandled: true}
			}
			mu.Lock()
			served++
			mu.Unlock()
			var replies []fakemysql.Reply
			for k, n := range c.Sizes {
				k := k
				replies = append(replies, fakemysql.Reply{Result: &fakemysql.ResultSet{Cols: cols, NRows: n, RowGen: func(i int) [][]byte { return c.row(k, i) }}})
			}
			if c.TrailingOK {
				replies = append(replies, fakemysql.Reply{})
			}
			first := replies[0]
			first.More = replies[1:]
			return first
		}
	}
	slices := cl.SliceConfigs(specs)
	for _, sl := range slices {
		sl.HandshakeTimeout = 30000
	}
	ns := proxyfix.BaseNamespace(nsName, slices, []*models.User{{UserName: user, Password: "pw", RWFlag: 2, RWSplit: 0}})
	ns.MaxSqlResultSize = c.Limit
	if err := p.Install(ns); err != nil {
		o.Skip = "fixture: install: " + err.Error()
		return
	}
	defer p.Remove(nsName)
	cli, err := p.Dial(user, "pw", "db", 0)
	if err != nil {
		o.Skip = "fixture: dial: " + err.Error()
		return
	}
	defer cli.Close()
	cli.Timeout = 120 * time.Second
	if c.InTx {
		if r, err := cli.Exec("begin"); err != nil || r.Err != nil {
			o.Skip = "fixture: begin failed"
			return
		}
	}

	// what the limit demands
	firstOver := -1
	sum := 0
	near := false
	for k, n := range c.Sizes {
		sum += n
		if c.Limit > 0 && n > c.Limit && firstOver < 0 {
			firstOver = k
		}
		if c.Limit > 0 && n-c.Limit >= -1 && n-c.Limit <= 1 {
			near = true
		}
	}
	o.Labels = append(o.Labels, "kind_"+c.Kind, fmt.Sprintf("result_sets_%d", len(c.Sizes)))
	if c.Limit > 0 && sum > c.Limit && firstOver < 0 {
		o.Labels = append(o.Labels, "sum_over_limit_each_within")
	}
	if firstOver >= 0 {
		o.Labels = append(o.Labels, "one_set_over_limit")
	}
	if c.InTx {
		o.Labels = append(o.Labels, "in_transaction")
	}
	o.NonTrivial = near && sum > c.Limit && c.Limit > 0

	parts := len(c.Sizes)
	if c.TrailingOK {
		parts++
	}
	// leftover: an earlier attempt ended with the row-limit error before the last part of the reply, so the rest
	// of that reply was still unread on the backend connection when the error was reported
	leftover := false
	isF4 := func(msg string) bool { return leftover && strings.Contains(msg, "invalid sequence") }
	for rep := 0; rep < c.Repeat; rep++ {
		results, ioErr := cli.Query(stmt)
		var seen []string
		for k, r := range results {
			switch {
			case r.Err != nil:
				seen = append(seen, fmt.Sprintf("#%d ERR %d %q", k, r.Err.Code, r.Err.Message))
			case r.OK:
				seen = append(seen, fmt.Sprintf("#%d OK", k))
			default:
				seen = append(seen, fmt.Sprintf("#%d ROWS %d", k, len(r.Rows)))
			}
		}
		if ioErr != nil {
			seen = append(seen, "connection error: "+ioErr.Error())
		}
		mu.Lock()
		sv := served
		mu.Unlock()
		desc := fmt.Sprintf("kind=%s limit=%d sizes=%v trailing_ok=%v row_bytes=%d in_tx=%v attempt=%d backend served the statement %d times; client saw [%s]",
			c.Kind, c.Limit, c.Sizes, c.TrailingOK, c.RowBytes, c.InTx, rep, sv, strings.Join(seen, ", "))
		if sv == 0 {
			// the proxy refused the statement itself (never sent to a backend): nothing to check
			o.Labels = append(o.Labels, "proxy_refused_statement")
			if len(results) > 0 && results[len(results)-1].Err == nil && ioErr == nil {
				o.Violation = "the backend never received the statement, yet the client got a success [" + desc + "]"
			}
			return
		}
		// result sets delivered before any error: each exactly what the backend produced, in order
		k := 0
		var errAt = -1
		for ; k < len(results); k++ {
			r := results[k]
			if r.Err != nil {
				errAt = k
				break
			}
			if k >= len(c.Sizes) {
				if k == len(c.Sizes) && c.TrailingOK && r.OK {
					continue
				}
				o.Violation = fmt.Sprintf("result %d does not belong to the reply [%s]", k, desc)
				return
			}
			if r.OK || len(r.Rows) != c.Sizes[k] {
				o.Violation = fmt.Sprintf("result set %d has %d rows (ok=%v), the backend produced %d [%s]", k, len(r.Rows), r.OK, c.Sizes[k], desc)
				return
			}
			for i, row := range r.Rows {
				want := c.row(k, i)
				if len(row) != 2 || !bytes.Equal(row[0], want[0]) || !bytes.Equal(row[1], want[1]) {
					o.Violation = fmt.Sprintf("result set %d row %d differs from what the backend produced [%s]", k, i, desc)
					return
				}
			}
		}
		switch {
		case ioErr != nil:
			// a broken client connection is an error for the client; under load it can be the client's own deadline
			return pbt.Outcome{Skip: "inconclusive: client connection error"}
		case errAt >= 0:
			msg := results[errAt].Err.Message
			if isF4(msg) && errAt == 0 {
				// C39-F4: the unread rest of the previous reply answers this statement
				o.Known, o.KnownWhat = "C39-F4", fmt.Sprintf("attempt %d failed on leftovers of the previous multi-result reply [%s]", rep, desc)
				return
			}
			if firstOver >= 0 && errAt == firstOver {
				o.Labels = append(o.Labels, "error_at_oversized_set")
				if errAt < parts-1 && strings.Contains(msg, "sql result set size exceeded") {
					leftover = true
					o.Labels = append(o.Labels, "limit_error_before_last_part")
				}
			} else if firstOver >= 0 && errAt < firstOver || firstOver < 0 {
				// an error although result set errAt is within the limit
				if transportRe.MatchString(msg) && !strings.Contains(msg, "sql result set size exceeded") {
					return pbt.Outcome{Skip: "inconclusive: transport or timeout error instead of a result"}
				}
				if c.Limit > 0 || !strings.Contains(msg, "sql result set size exceeded") {
					o.Violation = fmt.Sprintf("result set %d has %d rows, within the limit %d, but the client received an error for it [%s]", errAt, c.Sizes[min(errAt, len(c.Sizes)-1)], c.Limit, desc)
					return
				}
			} else {
				o.Violation = fmt.Sprintf("result set %d exceeds the limit %d but was delivered; the error came at position %d [%s]", firstOver, c.Limit, errAt, desc)
				return
			}
		default:
			if firstOver >= 0 {
				o.Violation = fmt.Sprintf("result set %d has %d rows, more than the limit %d, but no error was reported [%s]", firstOver, c.Sizes[firstOver], c.Limit, desc)
				return
			}
			want := len(c.Sizes)
			if k < want {
				o.Violation = fmt.Sprintf("the client received %d of the %d result sets and no error [%s]", k, want, desc)
				return
			}
			o.Labels = append(o.Labels, "all_sets_delivered")
		}
	}
	// the next statement gets its own result, never leftovers of the multi-result reply
	r, err := cli.Exec(followSQL)
	fdesc := fmt.Sprintf("kind=%s limit=%d sizes=%v trailing_ok=%v in_tx=%v repeat=%d", c.Kind, c.Limit, c.Sizes, c.TrailingOK, c.InTx, c.Repeat)
	if err != nil {
		return pbt.Outcome{Skip: "inconclusive: client connection error on the follow-up statement"}
	}
	if r.Err != nil {
		if isF4(r.Err.Message) {
			o.Known, o.KnownWhat = "C39-F4", fmt.Sprintf("the statement after the multi-result one failed on its leftovers: %v [%s]", r.Err, fdesc)
			return
		}
		if transportRe.MatchString(r.Err.Message) {
			return pbt.Outcome{Skip: "inconclusive: transport or timeout error on the follow-up statement"}
		}
		if c.Limit > 0 {
			o.Violation = fmt.Sprintf("the statement after the multi-result one (one row, within the limit) was answered with an error: %v [%s]", r.Err, fdesc)
		}
		return
	}
	if len(r.Rows) != 1 || len(r.Rows[0]) != 2 || string(r.Rows[0][0]) != "424242" || string(r.Rows[0][1]) != "after" {
		first := ""
		if len(r.Rows) > 0 && len(r.Rows[0]) > 0 {
			first = string(r.Rows[0][0])
		}
		o.Violation = fmt.Sprintf("the statement after the multi-result one returned %d rows (first cell %q, ok=%v) instead of its own row [%s]", len(r.Rows), first, r.OK, fdesc)
	}
	return
}

func TestC39MultiResult(t *testing.T) {
	pbt.Run(t, pbt.Spec{ID: "C39", Sub: "multires", Quick: 200, Thorough: 2000,
		Rule:  "one unsharded statement (CALL, or a multi-statement text the proxy forwards unsplit) answered by the backend with 2-3 result sets (optionally a trailing OK) of limit-1/limit/limit+1/arbitrary rows each, limit 1-50 or unlimited, sent once or twice, inside or outside a transaction, pool of one backend connection; non-trivial = some set within one row of the limit and the sum of the sets above the limit",
		Floor: 0.4}, genMR, checkMR)
}
