//go:build verif

// C24 layer 3: generated concurrent workloads, scheduled by the real Go
// scheduler (and run under the race detector in the thorough tier):
//
//	conc_pool     util.ResourcePool with a counting factory (fast, all hooks)
//	conc_backend  backend.ConnectionPool (connectionPoolImpl + pooledConnectImpl.Recycle)
//	              over a loopback fakemysql server
//
// Each client goroutine checks on its own what the statement says about it: the
// connection it got is held by nobody else, the number of clients that hold a
// connection never exceeds the maximum capacity (the counter is raised after
// Get returns and lowered before Put is called, so it never over-counts), and
// the return does not panic. After all goroutines have joined, the quiescent
// identity is checked.
package c24

import (
	"bytes"
	"context"
	"encoding/json"
	"fmt"
	"os"
	"path/filepath"
	"regexp"
	"runtime"
	"sort"
	"strings"
	"sync"
	"sync/atomic"
	"testing"
	"time"

	"github.com/XiaoMi/Gaea/backend"
	"github.com/XiaoMi/Gaea/mysql"
	"github.com/XiaoMi/Gaea/util"
	"pgregory.net/rapid"
	"verifharness/internal/fakemysql"
	"verifharness/internal/pbt"
)

type cOp struct {
	// clients: use | use_bad | try          controller: sweep | yield | setcap | scalein
	// backend layer only: use_big (result > 16 MiB, recycled without fetching the rest),
	// use_drop (server closes the socket instead of replying: packet error), use_mid (error packet in the rows)
	Kind string `json:"kind"`
	Hold int    `json:"hold,omitempty"` // scheduler yields while holding / between controller steps
	N    int    `json:"n,omitempty"`    // use: scripted factory failures; setcap: capacity
}

type concCase struct {
	Cap     int  `json:"cap"`
	Max     int  `json:"max"`
	IdleAll bool `json:"idle_all"`
	// clean:  sweeps only while clients run; Close after they have joined
	// grow:   as clean, plus SetCapacity(max) concurrent with the clients
	// shrink: scale-in ticks and arbitrary SetCapacity run concurrently with the clients
	// close:  as clean, but Close is called while clients are still running
	Mode    string  `json:"mode"`
	Clients [][]cOp `json:"clients"`
	Ctl     []cOp   `json:"ctl"`
	Rounds  int     `json:"rounds"`
}

func genConc(maxClients, maxOps int, modes []string, backendOps bool) func(t *rapid.T) concCase {
	return func(t *rapid.T) concCase {
		var c concCase
		c.Max = rapid.IntRange(1, 4).Draw(t, "max")
		c.Cap = rapid.IntRange(1, c.Max).Draw(t, "cap")
		c.IdleAll = rapid.Bool().Draw(t, "idle_all")
		c.Mode = rapid.SampledFrom(modes).Draw(t, "mode")
		c.Rounds = rapid.IntRange(1, 4).Draw(t, "rounds")
		nc := rapid.IntRange(2, maxClients).Draw(t, "clients")
		for i := 0; i < nc; i++ {
			var ops []cOp
			n := rapid.IntRange(1, maxOps).Draw(t, "n")
			for j := 0; j < n; j++ {
				op := cOp{Kind: "use", Hold: rapid.IntRange(0, 3).Draw(t, "hold")}
				switch k := rapid.IntRange(0, 9).Draw(t, "k"); {
				case k == 0:
					op.Kind = "use_bad"
				case k == 1:
					op.Kind = "try"
				case k == 2:
					op.N = rapid.IntRange(1, 3).Draw(t, "fails")
				}
				ops = append(ops, op)
			}
			c.Clients = append(c.Clients, ops)
		}
		if backendOps {
			for _, ops := range c.Clients {
				for j := range ops {
					switch rapid.IntRange(0, 11).Draw(t, "bk") {
					case 0:
						ops[j].Kind = "use_drop"
					case 1:
						ops[j].Kind = "use_mid"
					}
				}
			}
			// few big results: each moves 18 MiB over the loopback socket
			bigs := []int{0, 0, 0, 0, 0, 1, 1, 2}
			if os.Getenv("VERIF_RACE") != "" {
				// under the race detector reading 16 MiB takes many seconds on a loaded machine
				bigs = []int{0, 0, 0, 0, 0, 0, 0, 0, 0, 0, 0, 0, 0, 0, 0, 1}
			}
			nbig := rapid.SampledFrom(bigs).Draw(t, "nbig")
			if nbig > 0 {
				c.Rounds = 1
			}
			for b := nbig; b > 0; b-- {
				ci := rapid.IntRange(0, len(c.Clients)-1).Draw(t, "big_client")
				oi := rapid.IntRange(0, len(c.Clients[ci])-1).Draw(t, "big_op")
				c.Clients[ci][oi].Kind = "use_big"
			}
		}
		n := rapid.IntRange(0, 12).Draw(t, "nctl")
		for j := 0; j < n; j++ {
			op := cOp{Kind: "yield", Hold: rapid.IntRange(0, 4).Draw(t, "hold")}
			switch k := rapid.IntRange(0, 9).Draw(t, "k"); {
			case k < 3:
				op.Kind = "sweep"
			case k < 5:
				op.Kind, op.N = "setcap", rapid.IntRange(1, c.Max).Draw(t, "n")
			case k < 8:
				op.Kind = "scalein"
			}
			c.Ctl = append(c.Ctl, op)
		}
		return c
	}
}

type concState struct {
	max      int
	held     atomic.Int32
	maxHeld  atomic.Int32
	mu       sync.Mutex
	first    string // first failure
	kind     string
	labels   map[string]bool
	closing  atomic.Bool
	capOver  atomic.Bool  // Capacity() above the maximum capacity was observed
	progress atomic.Int64 // client and controller operations completed
	skip     string       // inconclusive (too slow)
}

func (s *concState) fail(kind, f string, a ...interface{}) {
	s.mu.Lock()
	if s.first == "" {
		s.first, s.kind = fmt.Sprintf(f, a...), kind
	}
	s.mu.Unlock()
}

func (s *concState) label(l string) {
	s.mu.Lock()
	s.labels[l] = true
	s.mu.Unlock()
}

func (s *concState) acquired() {
	n := s.held.Add(1)
	for {
		m := s.maxHeld.Load()
		if n <= m || s.maxHeld.CompareAndSwap(m, n) {
			break
		}
	}
	if int(n) > s.max {
		s.fail("over_max", "%d clients hold a connection at the same time, maximum capacity is %d", n, s.max)
	}
}

func yield(n int) {
	for i := 0; i < n; i++ {
		runtime.Gosched()
	}
}

// joinJudged waits for wg. When it has not joined after first, the workload is either slow
// (loaded machine, race detector, 16 MiB results) or dead-locked. It is called dead-locked,
// and reported, only when two goroutine dumps 10 s apart (longer than every Get timeout) show
// every goroutine of the workload and of the pool parked on a channel, select or lock and no
// operation completed in between; a workload that is still moving after 10 minutes is given up
// as inconclusive (skip), never as a violation.
func joinJudged(wg *sync.WaitGroup, first time.Duration, st *concState, what string) bool {
	done := make(chan struct{})
	go func() { wg.Wait(); close(done) }()
	select {
	case <-done:
		return true
	case <-time.After(first):
	}
	dumpStuck()
	deadline := time.Now().Add(10 * time.Minute)
	parkedBefore, progBefore := false, int64(-1)
	for time.Now().Before(deadline) {
		select {
		case <-done:
			st.label("slow_workload")
			return true
		case <-time.After(10 * time.Second):
		}
		p, prog := workloadParked(), st.progress.Load()
		if p && parkedBefore && prog == progBefore {
			st.fail("stuck", "%s: every goroutine of the workload has been parked on a channel or lock for more than 10 s and nothing completes", what)
			return false
		}
		parkedBefore, progBefore = p, prog
	}
	st.mu.Lock()
	st.skip = "workload too slow: " + what + " still running after 10 min"
	st.mu.Unlock()
	return false
}

var (
	markRound   = []byte("props/c24.run")
	markBackend = []byte("backend.(*connectionPoolImpl)")
)

func workloadParked() bool {
	buf := make([]byte, 8<<20)
	n := runtime.Stack(buf, true)
	dump := buf[:n]
	first := true
	for len(dump) > 0 {
		var block []byte
		if i := bytes.Index(dump, []byte("\n\n")); i >= 0 {
			block, dump = dump[:i], dump[i+2:]
		} else {
			block, dump = dump, nil
		}
		if first {
			first = false
			continue
		}
		if !bytes.Contains(block, markRound) && !bytes.Contains(block, markPool) && !bytes.Contains(block, markBackend) {
			continue
		}
		a, b := bytes.IndexByte(block, '['), bytes.IndexByte(block, ']')
		if a < 0 || b < a {
			return false
		}
		state := string(block[a+1 : b])
		if i := strings.IndexByte(state, ','); i >= 0 {
			state = state[:i]
		}
		switch state {
		case "chan receive", "chan send", "select", "semacquire", "sync.Mutex.Lock", "sync.RWMutex.Lock", "sync.RWMutex.RLock", "sync.WaitGroup.Wait", "sync.Cond.Wait":
		default:
			return false
		}
	}
	return true
}

// classify maps a failure of a workload to a known finding when the workload
// contains that finding's trigger and the failure is one of its consequences.
func classifyConc(c concCase, st *concState) string {
	mode, kind := c.Mode, st.kind
	// C24-F4: SetCapacity's compare-and-swap interleaves with the check-then-add of a scale-out;
	// the signature is a capacity above the maximum
	if st.capOver.Load() && (mode == "grow" || mode == "shrink") {
		for _, op := range c.Ctl {
			if op.Kind == "setcap" {
				switch kind {
				case "put_full", "over_max", "cap_over_max", "identity", "stuck":
					return "C24-F4"
				}
			}
		}
	}
	switch mode {
	case "shrink":
		// scale-out while a capacity reduction waits (C24-F2): more slots than max exist
		if kind == "over_max" || kind == "put_full" {
			return "C24-F2"
		}
	case "close":
		// scale-out while Close waits (C24-F1)
		// (get_closed: the scaled-out Get failed in the factory and puts its slot into the closed channel)
		// (put_full: the slots added during the Close are more than the channel can take back)
		if kind == "over_max" || kind == "put_closed" || kind == "get_closed" || kind == "revived" || kind == "put_full" {
			return "C24-F1"
		}
	}
	return ""
}

func getKind(p string) string {
	if strings.Contains(p, "send on closed channel") {
		return "get_closed"
	}
	return "get_panic"
}

func putKind(p string) string {
	switch {
	case strings.Contains(p, "send on closed channel"), strings.Contains(p, "connection pool is closed"):
		return "put_closed"
	case strings.Contains(p, "full ResourcePool"):
		return "put_full"
	}
	return "put_panic"
}

// ---- util.ResourcePool ----

func runPoolRound(c concCase, st *concState) {
	r := &runner{}
	idle := time.Hour
	if c.IdleAll {
		idle = time.Nanosecond
	}
	rp, err := util.NewResourcePool(r.factory, c.Cap, c.Max, idle)
	if err != nil {
		st.fail("new", "NewResourcePool: %v", err)
		return
	}
	rp.VerifStopTimers()
	var wg sync.WaitGroup
	start := make(chan struct{})
	for ci, ops := range c.Clients {
		wg.Add(1)
		go func(ci int, ops []cOp) {
			defer wg.Done()
			<-start
			for _, op := range ops {
				st.progress.Add(1)
				to := 2 * time.Second // backend.GetConnTimeout
				if op.Kind == "try" {
					to = 200 * time.Microsecond
				}
				if op.N > 0 {
					r.failNext.Store(int32(op.N))
				}
				ctx, cancel := context.WithTimeout(context.Background(), to)
				var res util.Resource
				var err error
				if p := pbt.Catch(func() { res, err = rp.Get(ctx) }); p != "" {
					st.fail(getKind(p), "Get panicked: %s", p)
				}
				cancel()
				if err != nil || res == nil {
					if err == util.ErrTimeout && op.Kind != "try" {
						st.label("get_timed_out_2s")
					}
					continue
				}
				f := res.(*fakeRes)
				if rp.Capacity() > int64(c.Max) {
					st.capOver.Store(true)
				}
				if !f.holder.CompareAndSwap(0, int32(ci+1)) {
					st.fail("double_issue", "client %d got resource r%d while client %d holds it", ci+1, f.id, f.holder.Load())
				}
				st.acquired()
				yield(op.Hold)
				st.held.Add(-1)
				f.holder.Store(0)
				var arg util.Resource = f
				if op.Kind == "use_bad" {
					f.Close()
					arg = nil
				}
				if p := pbt.Catch(func() { rp.Put(arg) }); p != "" {
					if rp.Capacity() > int64(c.Max) {
						st.capOver.Store(true)
					}
					st.fail(putKind(p), "returning resource r%d failed: Put panicked: %s", f.id, p)
				}
			}
		}(ci, ops)
	}
	var cwg sync.WaitGroup
	cwg.Add(1)
	go func() {
		defer cwg.Done()
		<-start
		for _, op := range c.Ctl {
			st.progress.Add(1)
			kind := op.Kind
			switch {
			case c.Mode == "shrink":
			case kind == "scalein":
				kind = "yield"
			case kind == "setcap" && c.Mode == "grow":
				op.N = c.Max // never a reduction
			case kind == "setcap":
				kind = "yield"
			}
			if p := pbt.Catch(func() {
				switch kind {
				case "sweep":
					rp.VerifCloseIdle()
				case "setcap":
					rp.SetCapacity(op.N)
				case "scalein":
					rp.VerifScaleIn()
				}
			}); p != "" {
				st.fail(kind+"_panic", "%s panicked: %s", kind, p)
			}
			yield(op.Hold)
		}
		if c.Mode == "close" {
			st.closing.Store(true)
			if p := pbt.Catch(rp.Close); p != "" {
				st.fail("close_panic", "Close panicked: %s", p)
			}
		}
	}()
	close(start)
	defer func() {
		if rp.Capacity() > int64(c.Max) {
			st.capOver.Store(true)
		}
	}()
	if !joinJudged(&wg, 60*time.Second, st, "clients (every Get has a 2 s timeout)") {
		return
	}
	if !joinJudged(&cwg, 30*time.Second, st, "every client has returned its connections, controller operation (sweep/SetCapacity/scale-in/Close)") {
		return
	}
	deadline := time.Now().Add(30 * time.Second)
	for rp.VerifScaleInPending() {
		time.Sleep(50 * time.Microsecond)
		if time.Now().After(deadline) {
			st.fail("stuck", "a scale-in step is still blocked 30 s after every connection was returned")
			return
		}
	}
	chanLen, capN, avail, inUse := rp.VerifChanLen(), rp.Capacity(), rp.Available(), rp.InUse()
	kind := "identity"
	if c.Mode == "close" && capN != 0 {
		kind = "revived"
	}
	if capN > int64(c.Max) {
		st.capOver.Store(true)
		st.fail("cap_over_max", "capacity %d exceeds the maximum capacity %d", capN, c.Max)
	}
	if int64(chanLen) != capN || avail != int64(chanLen) || inUse != 0 {
		st.fail(kind, "all clients joined: %d idle slots, Available=%d, InUse=%d, capacity %d", chanLen, avail, inUse, capN)
	}
	if c.Mode != "close" {
		var w sync.WaitGroup
		w.Add(1)
		go func() { defer w.Done(); rp.Close() }()
		joinJudged(&w, 30*time.Second, st, "Close with no connection handed out")
	}
}

func checkConc(round func(concCase, *concState)) func(c concCase) pbt.Outcome {
	return func(c concCase) (o pbt.Outcome) {
		if c.Max < 1 || c.Cap < 1 || c.Cap > c.Max || len(c.Clients) == 0 {
			o.Skip = "malformed case"
			return
		}
		st := &concState{max: c.Max, labels: map[string]bool{}}
		rounds := max(1, c.Rounds)
		if os.Getenv("VERIF_REPLAY") != "" {
			rounds *= 50 // a replayed schedule-dependent failure gets more attempts
		}
		for i := 0; i < rounds && st.first == "" && st.skip == ""; i++ {
			st.held.Store(0)
			st.closing.Store(false)
			round(c, st)
		}
		if st.first == "" && st.skip != "" {
			o.Skip = st.skip
			return
		}
		o.Labels = append(o.Labels, "mode_"+c.Mode, fmt.Sprintf("clients_%d", len(c.Clients)))
		if int(st.maxHeld.Load()) >= c.Max {
			o.Labels = append(o.Labels, "reached_max_capacity")
		}
		for l := range st.labels {
			o.Labels = append(o.Labels, l)
		}
		sort.Strings(o.Labels)
		o.NonTrivial = int(st.maxHeld.Load()) >= 2 || (c.Max == 1 && len(c.Clients) >= 2)
		if st.first != "" {
			detail := fmt.Sprintf("[%s] %s (cap %d, max %d, %d clients, mode %s)", st.kind, st.first, c.Cap, c.Max, len(c.Clients), c.Mode)
			if id := classifyConc(c, st); id != "" {
				o.Known, o.KnownWhat = id, detail
			} else {
				o.Violation = detail
			}
		}
		return
	}
}

func TestC24ConcPool(t *testing.T) {
	q, th := 400, 6000
	if os.Getenv("VERIF_RACE") != "" {
		q, th = 150, 1500
	}
	pbt.Run(t, pbt.Spec{ID: "C24", Sub: "conc_pool", Quick: q, Thorough: th,
		Rule:  "util.ResourcePool, capacity<=max<=4; 2-8 client goroutines with 1-12 operations each (get/hold/put, get/close/put nil, get with 200 us timeout, scripted factory failures) plus a controller goroutine (mode clean: idle sweeps only, Close after the join; grow: plus SetCapacity(max); shrink: plus scale-in ticks and any SetCapacity; close: Close concurrent with clients); 1-4 rounds per workload. non-trivial = at least two connections were held at the same time (or clients competed for a pool of one)",
		Floor: 0.5}, genConc(8, 12, []string{"clean", "clean", "grow", "shrink", "close"}, false), checkConc(runPoolRound))
}

// ---- backend.ConnectionPool over fakemysql ----

var (
	srvOnce sync.Once
	srv     *fakemysql.Server
	srvErr  error
)

var stuckOnce sync.Once

// dumpStuck saves the goroutine dump of the first stuck workload next to the evidence.
func dumpStuck() {
	stuckOnce.Do(func() {
		buf := make([]byte, 8<<20)
		n := runtime.Stack(buf, true)
		os.WriteFile(filepath.Join(os.Getenv("VERIF_OUT"), fmt.Sprintf("C24-stuck-%d.txt", os.Getpid())), buf[:n], 0o644)
	})
}

var bigCell = make([]byte, 2<<20)

// backendHandler scripts the three statements of the backend layer.
func backendHandler(c *fakemysql.Conn, sql string) fakemysql.Reply {
	col := []fakemysql.Column{{Name: "v", Type: fakemysql.TypeVarString, Charset: 63, Length: 1 << 24}}
	switch sql {
	case "select big":
		return fakemysql.Reply{Result: &fakemysql.ResultSet{Cols: col, NRows: 9, RowGen: func(i int) [][]byte { return [][]byte{bigCell} }}}
	case "select drop":
		return fakemysql.Reply{CloseBefore: true}
	case "select mid":
		return fakemysql.Reply{Result: &fakemysql.ResultSet{Cols: col, Rows: [][][]byte{{[]byte("a")}, {[]byte("b")}, {[]byte("c")}}}, MidStreamErr: 2}
	}
	return fakemysql.Reply{Unhandled: true}
}

func runBackendRound(c concCase, st *concState) {
	srvOnce.Do(func() {
		srv, srvErr = fakemysql.NewServer("c24", "master", "slice-0")
		if srvErr == nil {
			srv.Handler = backendHandler
		}
	})
	if srvErr != nil {
		st.fail("env", "fakemysql: %v", srvErr)
		return
	}
	idle := time.Hour
	if c.IdleAll {
		idle = 2 * time.Millisecond // real idle timer: a sweep every 200 us
	}
	cp := backend.NewConnectionPool(srv.Addr(), "root", "root", "", c.Cap, c.Max, idle, "utf8mb4", mysql.DefaultCollationID, 0, "", "dc", 2*time.Second)
	if err := cp.Open(); err != nil {
		st.fail("env", "Open: %v", err)
		return
	}
	var holders sync.Map // PooledConnect -> client
	var wg sync.WaitGroup
	start := make(chan struct{})
	for ci, ops := range c.Clients {
		wg.Add(1)
		go func(ci int, ops []cOp) {
			defer wg.Done()
			<-start
			for _, op := range ops {
				st.progress.Add(1)
				to := 3 * time.Second
				if op.Kind == "try" {
					to = 300 * time.Microsecond
				}
				ctx, cancel := context.WithTimeout(context.Background(), to)
				var pc backend.PooledConnect
				var err error
				if p := pbt.Catch(func() { pc, err = cp.Get(ctx) }); p != "" {
					st.fail(getKind(p), "Get panicked: %s", p)
				}
				cancel()
				if err != nil || pc == nil {
					if err != nil && op.Kind != "try" {
						st.label("get_failed")
					}
					continue
				}
				if cp.Capacity() > int64(c.Max) {
					st.capOver.Store(true)
				}
				if prev, loaded := holders.LoadOrStore(pc, ci+1); loaded {
					st.fail("double_issue", "client %d got a connection that client %v holds", ci+1, prev)
				}
				st.acquired()
				switch op.Kind {
				case "use_big":
					// 9 rows of 2 MiB: the reader stops after 16 MiB and leaves the rest on the wire
					if _, err := pc.Execute("select big", 0); err == nil && pc.MoreRowsExist() {
						st.label("recycled_with_unread_rows")
					} else {
						st.label("big_result_not_partial")
					}
				case "use_drop":
					if _, err := pc.Execute("select drop", 0); err != nil {
						st.label("recycled_after_packet_error")
					}
				case "use_mid":
					if _, err := pc.Execute("select mid", 0); err != nil {
						st.label("recycled_after_error_in_rows")
					}
				default:
					if op.Hold > 1 {
						if _, err := pc.Execute("select 1", 0); err != nil {
							st.label("execute_failed")
						}
					}
				}
				yield(op.Hold)
				st.held.Add(-1)
				holders.Delete(pc)
				if op.Kind == "use_bad" {
					pc.Close()
				}
				if p := pbt.Catch(pc.Recycle); p != "" {
					if cp.Capacity() > int64(c.Max) {
						st.capOver.Store(true)
					}
					st.fail(putKind(p), "returning a connection failed: Recycle panicked: %s", p)
				}
			}
		}(ci, ops)
	}
	var cwg sync.WaitGroup
	cwg.Add(1)
	go func() {
		defer cwg.Done()
		<-start
		for _, op := range c.Ctl {
			if op.Kind == "setcap" && c.Mode == "grow" {
				if p := pbt.Catch(func() { cp.SetCapacity(c.Max) }); p != "" {
					st.fail("setcap_panic", "SetCapacity panicked: %s", p)
				}
			}
			yield(op.Hold)
		}
		if c.Mode == "close" {
			st.closing.Store(true)
			if p := pbt.Catch(cp.Close); p != "" {
				st.fail("close_panic", "Close panicked: %s", p)
			}
		}
	}()
	close(start)
	if !joinJudged(&wg, 90*time.Second, st, "clients") {
		return
	}
	if !joinJudged(&cwg, 30*time.Second, st, "every client has returned its connections, SetCapacity/Close") {
		return
	}
	if c.Mode != "close" {
		capN, avail, inUse := cp.Capacity(), cp.Available(), cp.InUse()
		if capN > int64(c.Max) {
			st.capOver.Store(true)
			st.fail("cap_over_max", "capacity %d exceeds the maximum capacity %d", capN, c.Max)
		}
		if avail+inUse != capN || inUse != 0 {
			st.fail("identity", "all clients joined: Available=%d, InUse=%d, capacity %d", avail, inUse, capN)
		}
		var w sync.WaitGroup
		w.Add(1)
		go func() { defer w.Done(); cp.Close() }()
		joinJudged(&w, 30*time.Second, st, "Close with no connection handed out")
	}
}

func TestC24ConcBackend(t *testing.T) {
	q, th := 120, 400
	if os.Getenv("VERIF_RACE") != "" {
		q, th = 60, 100
	}
	pbt.Run(t, pbt.Spec{ID: "C24", Sub: "conc_backend", Quick: q, Thorough: th,
		Rule:  "backend.ConnectionPool (connectionPoolImpl, pooledConnectImpl.Recycle) over a loopback MySQL simulator, capacity<=max<=4, idle timeout 1 h or 2 ms (real sweep timer); 2-6 client goroutines with 1-8 operations each (Get with timeout, optional query, Recycle; Recycle of a connection that the client closed, that has unread rows of a >16 MiB result (0-2 per workload), that met a packet error because the server dropped the socket, or that got an error packet among the rows), controller goroutine that in mode grow raises the capacity and in mode close closes the pool while clients run. non-trivial as in conc_pool",
		Floor: 0.5}, genConc(6, 8, []string{"clean", "clean", "grow", "close"}, true), checkConc(runBackendRound))
}

// ---- SetCapacity increase against scale-out (stress for the window between two atomic steps) ----

type growCase struct {
	Cap     int `json:"cap"`
	Max     int `json:"max"`
	Getters int `json:"getters"`
	Iters   int `json:"iters"`
}

func genGrow(t *rapid.T) growCase {
	c := growCase{Max: rapid.IntRange(2, 4).Draw(t, "max"), Iters: rapid.IntRange(200, 2000).Draw(t, "iters")}
	c.Cap = rapid.IntRange(1, c.Max-1).Draw(t, "cap")
	c.Getters = rapid.IntRange(1, c.Max-c.Cap).Draw(t, "getters") // every one can be served: no waiting
	return c
}

// checkGrow holds every initial slot, then lets Getters clients Get (each must scale out or
// wait) while SetCapacity(max) runs; afterwards capacity <= max, at most max connections are
// out and every return succeeds.
func checkGrow(c growCase) (o pbt.Outcome) {
	if c.Max < 2 || c.Cap < 1 || c.Cap >= c.Max || c.Getters < 1 || c.Getters > c.Max-c.Cap {
		o.Skip = "malformed case"
		return
	}
	o.NonTrivial = true
	for i := 0; i < c.Iters && o.Violation == "" && o.Known == ""; i++ {
		r := &runner{}
		rp, err := util.NewResourcePool(r.factory, c.Cap, c.Max, time.Hour)
		if err != nil {
			o.Violation = err.Error()
			return
		}
		rp.VerifStopTimers()
		var held []util.Resource
		var mu sync.Mutex
		for j := 0; j < c.Cap; j++ {
			x, err := rp.Get(context.Background())
			if err != nil {
				o.Violation = "Get on a fresh pool failed: " + err.Error()
				return
			}
			held = append(held, x)
		}
		var wg sync.WaitGroup
		var timedOut atomic.Bool
		start := make(chan struct{})
		for g := 0; g < c.Getters; g++ {
			wg.Add(1)
			go func() {
				defer wg.Done()
				<-start
				ctx, cancel := context.WithTimeout(context.Background(), 500*time.Millisecond)
				defer cancel()
				if x, err := rp.Get(ctx); err == nil {
					mu.Lock()
					held = append(held, x)
					mu.Unlock()
				} else {
					timedOut.Store(true)
				}
			}()
		}
		wg.Add(1)
		go func() { defer wg.Done(); <-start; rp.SetCapacity(c.Max) }()
		close(start)
		wg.Wait()
		capN := rp.Capacity()
		fail := ""
		if len(held) > c.Max {
			fail = fmt.Sprintf("%d connections are handed out, maximum capacity is %d (capacity %d)", len(held), c.Max, capN)
		}
		for _, x := range held {
			x := x
			if p := pbt.Catch(func() { rp.Put(x) }); p != "" && fail == "" {
				fail = fmt.Sprintf("returning a held resource failed: Put panicked: %s (capacity %d, maximum %d)", p, capN, c.Max)
			}
		}
		if fail == "" && capN > int64(c.Max) {
			fail = fmt.Sprintf("capacity %d exceeds the maximum capacity %d", capN, c.Max)
		}
		if fail != "" {
			fail = fmt.Sprintf("iteration %d: %s", i, fail)
			if capN > int64(c.Max) {
				o.Known, o.KnownWhat = "C24-F4", fail
			} else {
				o.Violation = fail
			}
		}
		go pbt.Catch(rp.Close)
		if timedOut.Load() {
			// not a statement of the property (liveness); do not spend the budget waiting
			o.Labels = append(o.Labels, "get_timed_out")
			break
		}
	}
	return
}

func TestC24ConcGrowRace(t *testing.T) {
	q, th := 40, 400
	pbt.Run(t, pbt.Spec{ID: "C24", Sub: "grow_race", Quick: q, Thorough: th,
		Rule:  "stress of one window: all initial slots are held, 1..max-cap clients call Get (scale-out path) while SetCapacity(max) runs, 200-2000 fresh pools per case; every case is non-trivial",
		Floor: 0.9}, genGrow, checkGrow)
}

// ---- race detector reports (thorough tier, -race build) ----

type findingsFile struct {
	Findings []struct {
		ID     string `json:"id"`
		Status string `json:"status"`
		What   string `json:"what"`
	} `json:"findings"`
}

// classifyRaceLogs reads this process's race detector log (GORACE log_path) and
// reports every data race with a frame in the pool code: the known one
// (Recycle writes returnTime after Put) as KNOWN-FINDING if it is listed, any
// other as a violation.
func classifyRaceLogs() int {
	m := regexp.MustCompile(`log_path=(\S+)`).FindStringSubmatch(os.Getenv("GORACE"))
	if m == nil {
		return 0
	}
	p := fmt.Sprintf("%s.%d", m[1], os.Getpid())
	b, err := os.ReadFile(p)
	if err != nil {
		return 0
	}
	open := map[string]string{}
	if fb, err := os.ReadFile(filepath.Join(pbt.VerifDir(), "findings.d", "C24.json")); err == nil {
		var ff findingsFile
		if json.Unmarshal(fb, &ff) == nil {
			for _, f := range ff.Findings {
				if f.Status == "open" {
					open[f.ID] = f.What
				}
			}
		}
	}
	rc := 0
	knownPrinted, f1Printed := false, false
	other := map[string]bool{}
	for _, block := range strings.Split(string(b), "WARNING: DATA RACE")[1:] {
		if i := strings.Index(block, "=================="); i >= 0 {
			block = block[:i]
		}
		inPool := strings.Contains(block, "/util/resource_pool.go") || strings.Contains(block, "/backend/connection_pool.go") || strings.Contains(block, "/backend/pooled_connection.go")
		if !inPool {
			continue
		}
		// the two accesses are the first frames of the first two stanzas
		stanzas := strings.Split(strings.TrimSpace(block), "\n\n")
		top := func(s string) string {
			lines := strings.Split(s, "\n")
			if len(lines) >= 2 {
				return strings.TrimSpace(lines[1])
			}
			return ""
		}
		var a, c string
		if len(stanzas) >= 2 {
			a, c = top(stanzas[0]), top(stanzas[1])
		}
		pair := a + " <-> " + c
		isRecycle := func(s string) bool { return strings.Contains(s, "(*pooledConnectImpl).Recycle") }
		isReturnTime := func(s string) bool {
			return strings.Contains(s, "(*pooledConnectImpl).GetReturnTime") || strings.Contains(s, "(*connectionPoolImpl).Get") || isRecycle(s)
		}
		if (isRecycle(a) && isReturnTime(c)) || (isRecycle(c) && isReturnTime(a)) {
			if what, ok := open["C24-F3"]; ok {
				if !knownPrinted {
					fmt.Printf("KNOWN-FINDING: property=C24 C24-F3: %s\n", what)
					knownPrinted = true
				}
				continue
			}
		}
		// a slot sent into the channel that Close is closing: consequence of C24-F1 (a connection
		// or slot handed out by a scale-out while Close was collecting the slots)
		isSend := func(s string) bool { return strings.HasPrefix(s, "runtime.chansend") }
		isClose := func(s string) bool { return strings.HasPrefix(s, "runtime.closechan") }
		if ((isSend(a) && isClose(c)) || (isSend(c) && isClose(a))) && strings.Contains(block, "(*ResourcePool).ScaleCapacity") {
			if what, ok := open["C24-F1"]; ok {
				if !f1Printed {
					fmt.Printf("KNOWN-FINDING: property=C24 C24-F1: %s\n", what)
					f1Printed = true
				}
				continue
			}
		}
		if !other[pair] {
			other[pair] = true
			fmt.Printf("VIOLATION property=C24 replay=%s\n  detail: data race in the pool code: %s\n", p, pair)
			rc = 1
		}
	}
	return rc
}
