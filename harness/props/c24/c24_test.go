//go:build verif

// C24 The connection pool never over-allocates, double-issues or fails a return.
//
// Layers 1+2 (this file): generated operation histories on util.ResourcePool.
// Every pool call runs in its own goroutine; after each call the interpreter
// waits until every goroutine that is inside the pool is parked on a channel
// (read from the runtime's goroutine dump, so there is no sleep-based guess),
// then looks at which calls have returned. Calls that block (Get on an empty
// pool at max capacity, a capacity reduction or Close while connections are
// out) simply stay parked and later operations of the history release them in
// the drawn order. The oracle is a ledger kept by the harness (who holds which
// resource), not the pool's own counters:
//
//	I1  resources held by clients           <= max capacity          (always)
//	I2  a resource returned by Get is not held by anybody else       (always)
//	I3  Put of a held resource returns, without panic                (always)
//	I4  channel length + held == Capacity(), and Available()/InUse()
//	    agree with channel length / held     (when no call is parked or running)
//
// Layer 3 is in c24_conc_test.go.
package c24

import (
	"bytes"
	"context"
	"encoding/json"
	"errors"
	"fmt"
	"os"
	"path/filepath"
	"runtime"
	"sort"
	"strings"
	"sync"
	"sync/atomic"
	"syscall"
	"testing"
	"time"

	"github.com/XiaoMi/Gaea/log"
	"github.com/XiaoMi/Gaea/util"
	"pgregory.net/rapid"
	"verifharness/internal/pbt"
)

// ---- silent logger (the pool logs factory failures to the console) ----

type nullLogger struct{}

func (nullLogger) SetLevel(name, level string) error                 { return nil }
func (nullLogger) Debug(format string, a ...interface{}) error       { return nil }
func (nullLogger) Trace(format string, a ...interface{}) error       { return nil }
func (nullLogger) Notice(format string, a ...interface{}) error      { return nil }
func (nullLogger) Warn(format string, a ...interface{}) error        { return nil }
func (nullLogger) Fatal(format string, a ...interface{}) error       { return nil }
func (nullLogger) Debugx(id, format string, a ...interface{}) error  { return nil }
func (nullLogger) Tracex(id, format string, a ...interface{}) error  { return nil }
func (nullLogger) Noticex(id, format string, a ...interface{}) error { return nil }
func (nullLogger) Warnx(id, format string, a ...interface{}) error   { return nil }
func (nullLogger) Fatalx(id, format string, a ...interface{}) error  { return nil }
func (nullLogger) Close()                                            {}
func (nullLogger) Dropped(i int) uint64                              { return 0 }

func TestMain(m *testing.M) {
	log.SetGlobalLogger(nullLogger{})
	rc := m.Run()
	raceRC := classifyRaceLogs()
	if os.Getenv("VERIF_RACE") != "" && os.Getenv("GORACE") != "" {
		// Under -race the testing package fails every test during which the detector reported
		// anything, also the reports classified above as known findings. The verdict of this
		// process is therefore: a property violation recorded by a sub-check, or a race report
		// in the pool code that is not a known finding.
		rc = raceRC
		files, _ := filepath.Glob(filepath.Join(os.Getenv("VERIF_OUT"), "C24.*."+shardSuffix()+".json"))
		if len(files) == 0 {
			rc = 1 // no sub-check wrote its evidence: something else went wrong
		}
		for _, f := range files {
			b, err := os.ReadFile(f)
			var ev struct {
				Violations int `json:"violations"`
			}
			if err != nil || json.Unmarshal(b, &ev) != nil || ev.Violations > 0 {
				rc = 1
			}
		}
		// os.Exit(0) would let the race runtime replace the status with its own (66) because it
		// has reported something; all output is already written
		os.Stdout.Sync()
		syscall.Exit(rc)
	} else if rc == 0 {
		rc = raceRC
	}
	os.Exit(rc)
}

func shardSuffix() string {
	if v := os.Getenv("VERIF_SHARD"); v != "" {
		return v
	}
	return "0"
}

// ---- case ----

type poolOp struct {
	// get | get_expired | put | put_nil | timeout | setcap | sweep | scalein | close
	Kind string `json:"kind"`
	// put/put_nil: index into the held resources; timeout: index into the parked Gets (both modulo what exists)
	Idx int `json:"idx,omitempty"`
	// setcap: new capacity; get: factory failures before a success (3 = the Get fails)
	N int `json:"n,omitempty"`
}

type poolCase struct {
	Cap int `json:"cap"`
	Max int `json:"max"`
	// IdleAll: idle timeout 1 ns (a sweep closes every idle connection); otherwise 1 h (closes none)
	IdleAll bool `json:"idle_all"`
	// AvoidKnown: a Get that would meet the conditions of findings C24-F1/F2 (scale-out while a
	// capacity reduction or Close is waiting for connections) is issued with an expired context instead;
	// a SetCapacity increase during a waiting reduction (F2) and a Close during a waiting SetCapacity
	// reduction (F5) are skipped
	AvoidKnown bool     `json:"avoid_known"`
	Ops        []poolOp `json:"ops"`
}

func genPool(t *rapid.T) poolCase {
	var c poolCase
	c.Max = rapid.IntRange(1, 4).Draw(t, "max")
	c.Cap = rapid.IntRange(1, c.Max).Draw(t, "cap")
	c.IdleAll = rapid.Bool().Draw(t, "idle_all")
	c.AvoidKnown = rapid.IntRange(0, 3).Draw(t, "avoid_known") != 0
	n := rapid.IntRange(4, 45).Draw(t, "nops")
	closeAt := -1
	if rapid.IntRange(0, 2).Draw(t, "with_close") == 0 {
		closeAt = rapid.IntRange(n/2, n-1).Draw(t, "close_at")
	}
	for i := 0; i < n; i++ {
		if i == closeAt {
			c.Ops = append(c.Ops, poolOp{Kind: "close"})
			continue
		}
		var op poolOp
		switch k := rapid.IntRange(0, 99).Draw(t, "op"); {
		case k < 28:
			op = poolOp{Kind: "get"}
			if rapid.IntRange(0, 5).Draw(t, "ff") == 0 {
				op.N = rapid.IntRange(1, 3).Draw(t, "fails")
			}
		case k < 31:
			op = poolOp{Kind: "get_expired"}
		case k < 58:
			op = poolOp{Kind: "put", Idx: rapid.IntRange(0, 7).Draw(t, "idx")}
		case k < 63:
			op = poolOp{Kind: "put_nil", Idx: rapid.IntRange(0, 7).Draw(t, "idx")}
		case k < 67:
			op = poolOp{Kind: "timeout", Idx: rapid.IntRange(0, 3).Draw(t, "idx")}
		case k < 79:
			op = poolOp{Kind: "setcap", N: rapid.IntRange(1, c.Max).Draw(t, "n")}
		case k < 88:
			op = poolOp{Kind: "sweep"}
		default:
			op = poolOp{Kind: "scalein"}
		}
		c.Ops = append(c.Ops, op)
	}
	return c
}

// ---- resources, workers ----

type fakeRes struct {
	id     int
	closed atomic.Int32
	holder atomic.Int32 // used by the concurrent layer
}

func (r *fakeRes) Close() { r.closed.Add(1) }

type worker struct {
	id       int
	kind     string
	done     atomic.Bool
	res      util.Resource
	err      error
	panicked string
	cancel   context.CancelFunc
	seen     bool // result already collected by the interpreter
	put      *fakeRes
	risk     string // get: "F1"/"F2" when it was started under the trigger conditions of that finding
}

type runner struct {
	rp         *util.ResourcePool
	mu         sync.Mutex
	nextRes    int
	failNext   atomic.Int32
	created    int
	workers    []*worker
	nextWorker int
	nextRisk   string
}

func (r *runner) factory() (util.Resource, error) {
	for {
		n := r.failNext.Load()
		if n <= 0 {
			break
		}
		if r.failNext.CompareAndSwap(n, n-1) {
			return nil, errors.New("scripted connect failure")
		}
	}
	r.mu.Lock()
	r.nextRes++
	id := r.nextRes
	r.created++
	r.mu.Unlock()
	return &fakeRes{id: id}, nil
}

func (r *runner) spawn(kind string, f func(w *worker)) *worker {
	r.nextWorker++
	w := &worker{id: r.nextWorker, kind: kind, risk: r.nextRisk}
	r.nextRisk = ""
	r.workers = append(r.workers, w)
	go runWorker(w, f)
	return w
}

func runWorker(w *worker, f func(w *worker)) {
	defer func() {
		if p := recover(); p != nil {
			w.panicked = fmt.Sprint(p)
		}
		w.done.Store(true)
	}()
	f(w)
}

// ---- quiescence detection from the goroutine dump ----

var dumpBuf = make([]byte, 1<<20)

var (
	markPool   = []byte("util.(*ResourcePool)")
	markWorker = []byte("props/c24.(*runner).spawn") // also matches a worker that has not started running yet
)

// parked reports whether every goroutine that is inside the pool, or is one of
// the interpreter's workers, is blocked on a channel operation.
func parked() bool {
	n := runtime.Stack(dumpBuf, true)
	dump := dumpBuf[:n]
	first := true
	for len(dump) > 0 {
		var block []byte
		if i := bytes.Index(dump, []byte("\n\n")); i >= 0 {
			block, dump = dump[:i], dump[i+2:]
		} else {
			block, dump = dump, nil
		}
		if first { // the calling goroutine
			first = false
			continue
		}
		if !bytes.Contains(block, markPool) && !bytes.Contains(block, markWorker) {
			continue
		}
		a := bytes.IndexByte(block, '[')
		b := bytes.IndexByte(block, ']')
		if a < 0 || b < a {
			return false
		}
		state := string(block[a+1 : b])
		if i := strings.IndexByte(state, ','); i >= 0 {
			state = state[:i]
		}
		switch state {
		case "chan receive", "chan send", "select":
		default:
			return false
		}
	}
	return true
}

// settle waits until nothing inside the pool can make progress on its own.
func (r *runner) settle() bool {
	// fast path: every call has returned and no scale-in goroutine exists
	for i := 0; i < 40; i++ {
		all := true
		for _, w := range r.workers {
			if !w.done.Load() {
				all = false
				break
			}
		}
		if all && !r.rp.VerifScaleInPending() {
			return true
		}
		runtime.Gosched()
	}
	deadline := time.Now().Add(30 * time.Second)
	for i := 0; ; i++ {
		if parked() {
			// the dump is a stop-the-world snapshot: parked goroutines stay parked until
			// the interpreter does something
			return true
		}
		runtime.Gosched()
		if i > 20 {
			time.Sleep(20 * time.Microsecond)
		}
		if time.Now().After(deadline) {
			return false
		}
	}
}

// ---- interpreter ----

type history struct {
	c           poolCase
	r           *runner
	o           *pbt.Outcome
	held        []*fakeRes
	lbl         map[string]bool
	closing     bool // Close has been called
	taintF1     bool // a Get was served by a scale-out while Close was waiting for connections
	taintF2     bool // a Get was served by a scale-out while a capacity reduction was waiting
	taintF5     bool // Close was called while a SetCapacity reduction was still collecting slots
	known       string
	knownWhat   string
	step        int
	prevSlots   int  // idle slots + handed-out connections at the previous settled point
	redBefore   bool // a capacity reduction was waiting when the current operation started
	closeBefore bool
	trace       []string
}

func (h *history) fail(kind, f string, a ...interface{}) {
	if h.o.Violation != "" || h.known != "" {
		return
	}
	msg := fmt.Sprintf("step %d: ", h.step) + fmt.Sprintf(f, a...)
	tr := h.trace
	if len(tr) > 14 {
		tr = tr[len(tr)-14:]
	}
	msg += " | cap0=" + fmt.Sprint(h.c.Cap) + " max=" + fmt.Sprint(h.c.Max) + " trace: " + strings.Join(tr, "; ")
	switch {
	case h.taintF1 && (kind == "over_max" || kind == "put_closed_chan" || kind == "revived"):
		h.known, h.knownWhat = "C24-F1", msg
	case h.taintF2 && !h.taintF1 && kind == "over_max":
		h.known, h.knownWhat = "C24-F2", msg
	case h.taintF5 && !h.taintF1 && (kind == "closed_early" || kind == "put_closed_chan"):
		h.known, h.knownWhat = "C24-F5", msg
	default:
		h.o.Violation = msg
	}
}

func (h *history) stopped() bool { return h.o.Violation != "" || h.known != "" || h.o.Skip != "" }

func (h *history) parkedWorkers(kind string) []*worker {
	var res []*worker
	for _, w := range h.r.workers {
		if !w.done.Load() && (kind == "" || w.kind == kind) {
			res = append(res, w)
		}
	}
	return res
}

// reductionPending: a SetCapacity/scale-in shrink is waiting for connections.
func (h *history) reductionPending() bool {
	return len(h.parkedWorkers("setcap")) > 0 || h.r.rp.VerifScaleInPending()
}

func (h *history) closePending() bool { return len(h.parkedWorkers("close")) > 0 }

func (h *history) isHeld(f *fakeRes) bool {
	for _, x := range h.held {
		if x == f {
			return true
		}
	}
	return false
}

// collect settles and then books every call that has returned since the last time.
func (h *history) collect() {
	if !h.r.settle() {
		h.o.Skip = "pool goroutines did not park within 30 s"
		return
	}
	rp := h.r.rp
	for _, w := range h.r.workers {
		if w.seen || !w.done.Load() {
			continue
		}
		w.seen = true
		if w.cancel != nil {
			w.cancel()
		}
		switch w.kind {
		case "get":
			if w.panicked != "" {
				kind := "get_panic"
				if strings.Contains(w.panicked, "send on closed channel") {
					kind = "put_closed_chan" // the failed Get puts its slot back into the closed channel
				}
				h.fail(kind, "Get panicked: %s", w.panicked)
				continue
			}
			if w.err != nil {
				switch {
				case w.err == util.ErrClosed:
					h.lbl["get_err_closed"] = true
				case w.err == util.ErrTimeout:
					h.lbl["get_err_timeout"] = true
				default:
					h.lbl["get_err_factory"] = true
				}
				h.trace = append(h.trace, fmt.Sprintf("get#%d->err", w.id))
				continue
			}
			f, ok := w.res.(*fakeRes)
			if !ok || f == nil {
				h.fail("get_bad", "Get returned neither a resource of this pool's factory nor an error: %v", w.res)
				continue
			}
			h.trace = append(h.trace, fmt.Sprintf("get#%d->r%d", w.id, f.id))
			if h.isHeld(f) {
				h.fail("double_issue", "Get returned resource r%d, which is still held by another client", f.id)
				continue
			}
			h.held = append(h.held, f)
		case "put":
			if w.panicked != "" {
				kind := "put_panic"
				if strings.Contains(w.panicked, "send on closed channel") {
					kind = "put_closed_chan"
				}
				h.fail(kind, "returning held resource r%d failed: Put panicked: %s", w.put.id, w.panicked)
			}
		default:
			if w.panicked != "" {
				h.fail(w.kind+"_panic", "%s panicked: %s", w.kind, w.panicked)
			}
			if w.kind == "close" {
				h.trace = append(h.trace, "close returned")
			}
			if w.kind == "setcap" && w.err != nil {
				h.lbl["setcap_err"] = true
			}
		}
	}
	// slot accounting for the classifiers of C24-F1/F2: did the last operation add slots
	// (scale-out inside Get, SetCapacity increase) while a reduction or Close was waiting?
	slots := rp.VerifChanLen() + len(h.held)
	if slots > h.prevSlots {
		if h.closeBefore || h.closing {
			h.taintF1 = true
		} else if h.redBefore {
			h.taintF2 = true
		}
	}
	h.prevSlots = slots
	if len(h.held) > h.c.Max {
		h.fail("over_max", "%d connections are handed out, maximum capacity is %d", len(h.held), h.c.Max)
	}
	if h.stopped() {
		return
	}
	// a Put never waits
	for _, w := range h.parkedWorkers("put") {
		h.fail("put_blocked", "returning held resource r%d did not complete: Put is blocked", w.put.id)
	}
	// the statement's quiescent identity
	if len(h.parkedWorkers("")) == 0 && !rp.VerifScaleInPending() {
		chanLen, capN, avail, inUse := rp.VerifChanLen(), rp.Capacity(), rp.Available(), rp.InUse()
		kind := "identity"
		if h.closing && capN > 0 {
			kind = "revived"
		} else if h.closing && len(h.held) > 0 {
			kind = "closed_early" // Close has returned (nothing is parked) with connections still out
		}
		if int64(chanLen+len(h.held)) != capN {
			h.fail(kind, "no operation in progress: %d idle slots in the channel + %d handed out != capacity %d", chanLen, len(h.held), capN)
		} else if avail != int64(chanLen) || inUse != int64(len(h.held)) {
			h.fail(kind, "no operation in progress: counters Available=%d InUse=%d, but %d idle slots and %d handed out (capacity %d)", avail, inUse, chanLen, len(h.held), capN)
		}
	}
}

func (h *history) exec(op poolOp) {
	rp := h.r.rp
	h.redBefore, h.closeBefore = h.reductionPending(), h.closePending()
	switch op.Kind {
	case "get", "get_expired":
		expired := op.Kind == "get_expired"
		if len(h.parkedWorkers("get")) >= 4 {
			return
		}
		risky := rp.VerifChanLen() == 0 && rp.Capacity() < int64(h.c.Max) && (h.reductionPending() || h.closePending())
		if risky && !expired {
			if h.c.AvoidKnown {
				expired = true
				h.lbl["avoided_known_trigger"] = true
			}
		}
		capBefore := rp.Capacity()
		ctx, cancel := context.WithCancel(context.Background())
		if expired {
			cancel()
		}
		if !expired {
			h.r.failNext.Store(int32(op.N))
			if op.N > 0 {
				h.lbl["factory_failure"] = true
			}
		}
		risk := ""
		if risky && !expired {
			risk = "F2"
			if h.closePending() || h.closing {
				risk = "F1"
			}
		}
		h.r.nextRisk = risk
		// such a Get scales out whatever happens to it afterwards (it may fail in the factory and
		// pass the new slot on to a parked Get, to the waiting reduction or to Close)
		switch risk {
		case "F1":
			h.taintF1 = true
		case "F2":
			h.taintF2 = true
		}
		w := h.r.spawn("get", func(w *worker) { w.res, w.err = rp.Get(ctx) })
		w.cancel = cancel
		h.trace = append(h.trace, fmt.Sprintf("get#%d(expired=%v,fail=%d)", w.id, expired, op.N))
		h.collect()
		if h.o.Skip != "" {
			return
		}
		if !w.done.Load() {
			h.lbl["get_parked"] = true
		} else if w.err == nil && !expired {
			if rp.Capacity() > capBefore {
				h.lbl["scale_out"] = true
				if len(h.held) > 1 {
					h.lbl["nontrivial"] = true
				}
			}
		}
	case "put", "put_nil":
		if len(h.held) == 0 {
			return
		}
		i := op.Idx % len(h.held)
		f := h.held[i]
		h.held = append(h.held[:i:i], h.held[i+1:]...)
		var arg util.Resource = f
		if op.Kind == "put_nil" {
			f.Close() // what connectionPoolImpl.Put / Recycle do with a bad connection
			arg = nil
		}
		w := h.r.spawn("put", func(w *worker) { rp.Put(arg) })
		w.put = f
		h.trace = append(h.trace, fmt.Sprintf("%s(r%d)", op.Kind, f.id))
		h.collect()
	case "timeout":
		ws := h.parkedWorkers("get")
		if len(ws) == 0 {
			return
		}
		w := ws[op.Idx%len(ws)]
		h.trace = append(h.trace, fmt.Sprintf("timeout(get#%d)", w.id))
		w.cancel()
		h.lbl["parked_get_timed_out"] = true
		h.collect()
	case "setcap":
		if h.closing || op.N < 1 || op.N > h.c.Max {
			return
		}
		if len(h.parkedWorkers("setcap")) >= 2 {
			return
		}
		n := op.N
		before := rp.Capacity()
		if h.c.AvoidKnown && int64(n) > before && h.redBefore {
			h.lbl["avoided_known_trigger"] = true
			return
		}
		w := h.r.spawn("setcap", func(w *worker) { w.err = rp.SetCapacity(n) })
		h.trace = append(h.trace, fmt.Sprintf("setcap(%d)", n))
		h.collect()
		if h.o.Skip != "" {
			return
		}
		if rp.Capacity() != before && len(h.held) > 0 {
			h.lbl["nontrivial"] = true
		}
		if !w.done.Load() {
			h.lbl["setcap_parked"] = true
		}
	case "sweep":
		if h.closing {
			return // Close stops the idle timer before it does anything else
		}
		closedBefore := rp.IdleClosed()
		h.r.spawn("sweep", func(w *worker) { rp.VerifCloseIdle() })
		h.trace = append(h.trace, "sweep")
		h.collect()
		if rp.IdleClosed() > closedBefore {
			h.lbl["sweep_closed_idle"] = true
		}
	case "scalein":
		if h.closing {
			return // Close stops the capacity timer
		}
		before := rp.Capacity()
		h.r.spawn("scalein", func(w *worker) { rp.VerifScaleIn() })
		h.trace = append(h.trace, "scalein")
		h.collect()
		if h.o.Skip != "" {
			return
		}
		if rp.Capacity() < before {
			h.lbl["scale_in"] = true
			if len(h.held) > 0 {
				h.lbl["nontrivial"] = true
			}
		}
		if rp.VerifScaleInPending() {
			h.lbl["scale_in_parked"] = true
		}
	case "close":
		if h.closing {
			return
		}
		if len(h.parkedWorkers("setcap")) > 0 {
			if h.c.AvoidKnown {
				h.lbl["avoided_known_trigger"] = true
				return
			}
			h.taintF5 = true
		}
		h.closing = true
		w := h.r.spawn("close", func(w *worker) { rp.Close() })
		h.trace = append(h.trace, "close")
		if len(h.held) > 0 {
			h.lbl["nontrivial"] = true
		}
		h.collect()
		if h.o.Skip != "" {
			return
		}
		if !w.done.Load() {
			h.lbl["close_parked"] = true
		}
	}
}

func checkPool(c poolCase) (o pbt.Outcome) {
	if c.Max < 1 || c.Cap < 1 || c.Cap > c.Max {
		o.Skip = "malformed case"
		return
	}
	r := &runner{}
	idle := time.Hour
	if c.IdleAll {
		idle = time.Nanosecond
	}
	rp, err := util.NewResourcePool(r.factory, c.Cap, c.Max, idle)
	if err != nil {
		o.Violation = "NewResourcePool rejected a legal configuration: " + err.Error()
		return
	}
	rp.VerifStopTimers()
	r.rp = rp
	h := &history{c: c, r: r, o: &o, lbl: map[string]bool{}, prevSlots: c.Cap}
	for i, op := range c.Ops {
		if h.stopped() {
			break
		}
		h.step = i
		h.exec(op)
	}
	// drain: parked Gets time out, every held connection is returned, until nothing is held;
	// then every capacity change and Close must have completed and the identity must hold
	h.step = len(c.Ops)
	for round := 0; round < 20 && !h.stopped(); round++ {
		ws := h.parkedWorkers("get")
		if len(ws) == 0 && len(h.held) == 0 {
			break
		}
		for _, w := range ws {
			w.cancel()
		}
		h.trace = append(h.trace, "drain")
		h.redBefore, h.closeBefore = h.reductionPending(), h.closePending()
		h.collect()
		for len(h.held) > 0 && !h.stopped() {
			h.exec(poolOp{Kind: "put"})
		}
	}
	if !h.stopped() {
		if ws := h.parkedWorkers(""); len(ws) > 0 || rp.VerifScaleInPending() {
			kinds := []string{}
			for _, w := range ws {
				kinds = append(kinds, w.kind)
			}
			if rp.VerifScaleInPending() {
				kinds = append(kinds, "scale-in step")
			}
			h.fail("stuck", "every connection has been returned and no Get is waiting, but these operations never complete: %s (capacity %d, %d idle slots)", strings.Join(kinds, ","), rp.Capacity(), rp.VerifChanLen())
		}
	}
	// leave no goroutines behind (the verdict is already fixed): parked Gets time out, held
	// connections go back, the pool is closed
	for _, w := range r.workers {
		if w.cancel != nil {
			w.cancel()
		}
	}
	for _, f := range h.held {
		f := f
		pbt.Catch(func() { rp.Put(f) })
	}
	h.held = nil
	if !h.closing {
		done := make(chan struct{})
		go func() { pbt.Catch(rp.Close); close(done) }()
		select {
		case <-done:
		case <-time.After(200 * time.Millisecond):
		}
	}
	for l := range h.lbl {
		if l != "nontrivial" {
			o.Labels = append(o.Labels, l)
		}
	}
	if c.AvoidKnown {
		o.Labels = append(o.Labels, "mode_avoid_known")
	}
	sort.Strings(o.Labels)
	o.NonTrivial = h.lbl["nontrivial"]
	if o.Violation == "" && h.known != "" {
		o.Known, o.KnownWhat = h.known, h.knownWhat
	}
	return
}

func TestC24History(t *testing.T) {
	pbt.Run(t, pbt.Spec{ID: "C24", Sub: "history", Quick: 2500, Thorough: 30000,
		Rule:  "util.ResourcePool with counting factory, capacity<=max<=4, idle timeout 1 ns or 1 h; 4-45 operations: Get (cancellable context, 0-3 scripted factory failures), Get with expired context, Put(resource), Close+Put(nil), timeout of a parked Get, SetCapacity(1..max), idle sweep, scale-in tick, at most one Close; each call in its own goroutine, parked calls are released by later operations; then drain. non-trivial = a capacity change (SetCapacity, scale-in, scale-out, Close) took effect while connections were handed out",
		Floor: 0.4}, genPool, checkPool)
}
