//go:build verif

// C19 Backend connections are returned exactly once and never leaked.
//
// A history of client commands for 1-3 sessions is generated together with a
// schedule of backend faults and interpreted one command at a time against a
// live proxy with simulated MySQL backends (internal/sesshist). The oracle is a
// ledger: the exported pool counters after every command (never negative, never
// more handed out than the sessions can legitimately hold) and, after every
// client is gone and the proxy has closed every session, InUse()==0 and
// Available()==Capacity() for every pool, no surviving backend connection
// inside a transaction or with autocommit off, and a fresh session can use
// every slice.
package c19

import (
	"encoding/json"
	"fmt"
	"os"
	"sort"
	"strings"
	"sync"
	"testing"
	"time"

	"pgregory.net/rapid"

	"verifharness/internal/pbt"
	"verifharness/internal/proxyfix"
	sh "verifharness/internal/sesshist"
)

// max_sql_execute_time and the stall that exceeds it. Quick: small, so that a case is cheap. Thorough runs 16
// processes in parallel: there the limit must stay well above scheduling noise, because a statement that times out
// only because the machine is slow leaves its connection in use by an abandoned goroutine of the proxy (see the
// scheduling assumption in checks.d/C19.json) and everything after that is nondeterministic.
func execLimits() (maxExecMs, stallMs int) {
	if pbt.Tier() == "thorough" {
		return 300, 650
	}
	return 120, 260
}

func profile(max int) sh.Profile {
	maxExecMs, stallMs := execLimits()
	return sh.Profile{MinCmds: 8, MaxCmds: max, KeepSession: 2, Faults: true, RefuseFaults: true, Disconnects: true, HardDrops: true, Ping: true, Streamed: true,
		MaxExecMs: maxExecMs, StallMs: stallMs}
}

func genCase(t *rapid.T) sh.Case         { return sh.Gen(t, profile(26)) }
func genCaseThorough(t *rapid.T) sh.Case { return sh.Gen(t, profile(50)) }

func maxStalls() int {
	if pbt.Tier() == "thorough" {
		return 2
	}
	return 1
}

// sessModel is the independent upper bound on what a session may hold.
type sessModel struct {
	alive bool
	maybe bool // may be inside a transaction (BEGIN / START / autocommit=0 seen and not certainly over)
	ac0   bool // autocommit may be off
}

// wall-clock accounting of the fixture, reported in the evidence ("extra") so that a slow run can be diagnosed
var timing struct {
	sync.Mutex
	cases                     int
	setup, steps, final, max  time.Duration
	unobserved, clientTimeout int
}

func noteTiming(tr *sh.Trace) {
	timing.Lock()
	defer timing.Unlock()
	timing.cases++
	timing.setup += tr.SetupDur
	timing.steps += tr.StepsDur
	timing.final += tr.FinalDur
	if tr.TotalDur > timing.max {
		timing.max = tr.TotalDur
	}
	timing.unobserved += tr.Unobserved
	for _, st := range tr.Steps {
		if strings.Contains(st.IOErr, "timeout") {
			timing.clientTimeout++
		}
	}
}

func reportTiming(rec *pbt.Recorder) {
	timing.Lock()
	defer timing.Unlock()
	rec.SetExtra("fixture_cases", timing.cases)
	rec.SetExtra("fixture_setup_s", timing.setup.Seconds())
	rec.SetExtra("fixture_commands_s", timing.steps.Seconds())
	rec.SetExtra("fixture_final_ledger_s", timing.final.Seconds())
	rec.SetExtra("fixture_slowest_case_s", timing.max.Seconds())
	rec.SetExtra("fixture_unobserved_closes", timing.unobserved)
	rec.SetExtra("fixture_client_timeouts", timing.clientTimeout)
}

func checkCase(c sh.Case) (o pbt.Outcome) {
	// at most one (quick) / two (thorough) stalls per history keep a case cheap
	stalls := 0
	for i := range c.Cmds {
		if f := c.Cmds[i].F; f != nil && f.Action == sh.ActStall {
			stalls++
			if stalls > maxStalls() {
				c.Cmds[i].F = nil
			}
		}
	}
	t0 := time.Now()
	tr, live := sh.RunLive(c, sh.Options{FinalLedger: true, ClientTimeout: 3 * time.Second})
	t1 := time.Now()
	live.Close()
	if os.Getenv("VERIF_TIMING") != "" {
		fmt.Printf("OUTER run=%v close=%v\n", t1.Sub(t0).Round(time.Millisecond), time.Since(t1).Round(time.Millisecond))
	}
	if tr.SetupErr != "" {
		o.Skip = "fixture: " + strings.SplitN(tr.SetupErr, ":", 2)[0]
		return
	}
	if os.Getenv("VERIF_TRACE") != "" {
		fmt.Println(sh.Dump(tr))
	}
	noteTiming(tr)
	if os.Getenv("VERIF_TIMING") != "" {
		slow := ""
		for _, st := range tr.Steps {
			if st.Dur > 300*time.Millisecond {
				slow += fmt.Sprintf(" [#%d %s %s %v io=%q]", st.Idx, st.Cmd.K, faultStr(st), st.Dur.Round(time.Millisecond), st.IOErr)
			}
		}
		fmt.Printf("TIMING total=%v setup=%v steps=%v final=%v n=%d unobs=%d hard=%d%s\n", tr.TotalDur.Round(time.Millisecond), tr.SetupDur.Round(time.Millisecond), tr.StepsDur.Round(time.Millisecond), tr.FinalDur.Round(time.Millisecond), len(tr.Steps), tr.Unobserved, tr.HardDrops, slow)
	}
	an := analyse(c, tr)
	o.Labels = an.labels
	o.NonTrivial = an.nonTrivial
	if an.skip != "" {
		o.Skip = an.skip
	} else if an.violation != "" {
		if id := classify(c, tr, an); id != "" {
			o.Known, o.KnownWhat = id, an.violation
		} else {
			o.Violation = an.violation
		}
	}
	if d := os.Getenv("VERIF_DEBUGDIR"); d != "" && (o.Violation != "" || o.Skip != "") {
		cj, _ := json.Marshal(c)
		os.WriteFile(fmt.Sprintf("%s/c19-%d.txt", d, time.Now().UnixNano()), []byte(o.Violation+o.Skip+"\n"+string(cj)+"\n"+sh.Dump(tr)), 0o644)
	}
	return
}

type analysis struct {
	violation  string
	where      string // "step", "final-pools", "final-open", "fresh"
	step       int
	skip       string
	labels     []string
	nonTrivial bool
	// per pool: final InUse (non-zero ones only) and Available-Capacity
	leaks map[string]int64
	// open session connections at the end that are in a transaction / autocommit off
	dirty []sh.OpenConn
	// observations used by the classifiers
	firstBad    string
	firstBadVal int64
	bounds      map[int]int64 // step -> upper bound used for master pools
}

func analyse(c sh.Case, tr *sh.Trace) *analysis {
	an := &analysis{leaks: map[string]int64{}, step: -1, bounds: map[int]int64{}}
	lab := map[string]bool{}
	nsess := len(c.RWSplit)
	ms := make([]*sessModel, nsess)
	for i := range ms {
		ms[i] = &sessModel{alive: true}
	}
	held := func() int64 { // upper bound per master pool
		var n int64
		for _, m := range ms {
			if m.alive && (c.KeepSession || m.maybe || m.ac0) {
				n++
			}
		}
		return n
	}
	if c.KeepSession {
		lab["keep_session"] = true
	} else {
		lab["no_keep_session"] = true
	}
	// rough "how many slices does the session hold" for the non-trivial rule, from the backend events
	txSlices := make([]map[string]bool, nsess)
	for i := range txSlices {
		txSlices[i] = map[string]bool{}
	}
	for _, st := range tr.Steps {
		if st.NoSession || st.Cmd.K == sh.KReload {
			continue
		}
		s := st.Cmd.S
		m := ms[s]
		inTxBefore := m.maybe || m.ac0
		if m.ac0 && !m.maybe && st.Err != nil && strings.Contains(st.Err.Message, "execution timed out, sql: ") {
			lab["autocommit0_statement_timed_out"] = true
		}
		if st.FaultFired {
			lab["fault_"+st.Cmd.F.On+"_"+st.Cmd.F.Action] = true
			if st.Cmd.F.On == sh.OnConnect && sh.IsSharded(st.Cmd.K) && c.Slices >= 2 {
				sl := map[int]bool{}
				for _, k := range st.Cmd.Keys {
					sl[k%c.Slices] = true
				}
				if len(sl) >= 2 {
					lab["refused_multi_slice_statement"] = true
					if inTxBefore {
						lab["refused_multi_slice_statement_in_tx"] = true
					}
					if c.KeepSession {
						lab["refused_multi_slice_statement_keep_session"] = true
					}
				}
			}
			span := map[string]bool{st.FaultConn.Server[:strings.Index(st.FaultConn.Server, "/")]: true}
			for sl := range txSlices[s] {
				span[sl] = true
			}
			if (inTxBefore && len(span) >= 2) || (c.KeepSession && sh.IsStmt(st.Cmd.K)) {
				an.nonTrivial = true
			}
			if inTxBefore {
				lab["fault_inside_tx"] = true
				if len(txSlices[s]) >= 2 {
					lab["fault_inside_multi_slice_tx"] = true
				}
			}
			if c.KeepSession {
				lab["fault_keep_session"] = true
			}
		} else if st.FaultArmed {
			lab["fault_armed_not_fired"] = true
		}
		switch st.Cmd.K {
		case sh.KBegin, sh.KStart:
			m.maybe = true
		case sh.KAc0:
			m.ac0 = true
		case sh.KAc1:
			// autocommit 0 -> 1 commits; with autocommit already on the statement changes nothing (MySQL) and a
			// BEGIN-started transaction stays open
			if st.OK && m.ac0 {
				m.ac0, m.maybe = false, false
				txSlices[s] = map[string]bool{}
			}
		case sh.KCommit, sh.KRollback:
			// whatever the outcome, the transaction is over
			m.maybe = false
			txSlices[s] = map[string]bool{}
		case sh.KQuit, sh.KDrop, sh.KDropFlight, sh.KDropHard:
			// after an RST (or when the proxy-side close was not seen) the session may still be closing: keep counting it for the bound
			m.alive = st.Cmd.K == sh.KDropHard || !st.ProxyClosed
			lab["disconnect_"+st.Cmd.K] = true
			if inTxBefore {
				lab["disconnect_inside_tx"] = true
			}
		default:
			if sh.IsStmt(st.Cmd.K) && inTxBefore {
				for _, e := range st.Events {
					if e.Kind == "query" && sh.HasTag(e.SQL, st.Tag) {
						txSlices[s][e.Slice] = true
					}
				}
			}
		}
		if st.Err != nil && strings.Contains(st.Err.Message, "execution timed out") && !(st.FaultFired && st.Cmd.F.Action == sh.ActStall) && an.violation == "" && an.skip == "" {
			// only injected stalls are meant to exceed max_sql_execute_time; when the machine is so slow that an ordinary
			// statement does, the proxy's abandoned reader makes everything after it nondeterministic
			an.skip = "a statement exceeded max_sql_execute_time without an injected stall (machine too slow): inconclusive"
		}
		if st.IOErr != "" {
			if strings.Contains(st.IOErr, "timeout") && an.violation == "" && an.skip == "" {
				an.skip = fmt.Sprintf("the proxy did not answer step %d within the client deadline", st.Idx)
			}
			lab["proxy_closed_session"] = true
			m.alive = false
		}
		bound := held()
		an.bounds[st.Idx] = bound
		if an.violation != "" {
			continue
		}
		for _, p := range append(append([]sh.PoolStat{}, st.Pools...), st.OldPools...) {
			b := bound
			if p.Role != "master" {
				b = 0
			}
			switch {
			case p.InUse < 0:
				an.fail("step", st.Idx, p.Name, p.InUse, "after step %d (session %d %s %q, fault %s): pool %s has InUse=%d: a connection was returned more than once", st.Idx, s, st.Cmd.K, st.SQL, faultStr(st), p.Name, p.InUse)
			case p.Available > p.Capacity:
				an.fail("step", st.Idx, p.Name, p.InUse, "after step %d (session %d %s %q, fault %s): pool %s has Available=%d > Capacity=%d: a connection was returned more than once", st.Idx, s, st.Cmd.K, st.SQL, faultStr(st), p.Name, p.Available, p.Capacity)
			case p.InUse > b:
				an.fail("step", st.Idx, p.Name, p.InUse, "after step %d (session %d %s %q, fault %s): pool %s has InUse=%d but the live sessions can hold at most %d connection(s) of it", st.Idx, s, st.Cmd.K, st.SQL, faultStr(st), p.Name, p.InUse, b)
			}
		}
	}
	for l := range lab {
		an.labels = append(an.labels, l)
	}
	sort.Strings(an.labels)
	// final ledger
	for _, p := range tr.FinalPools {
		if p.InUse != 0 || p.Available != p.Capacity {
			an.leaks[p.Name] = p.InUse
		}
	}
	for _, oc := range tr.FinalOpen {
		if oc.Class != "health" && oc.Class != "kill" && oc.Class != "bare" && (oc.InTrans || !oc.Autocommit) {
			an.dirty = append(an.dirty, oc)
		}
	}
	if an.skip != "" {
		return an
	}
	if an.violation != "" {
		return an
	}
	if tr.StillChanging {
		an.skip = "pool counters still changing at the deadline (quiescence not reached)"
		return an
	}
	if (len(an.leaks) > 0 || len(an.dirty) > 0) && tr.Unobserved > 0 {
		// a stable non-zero InUse is a leak only after every session is known to be closed
		an.skip = "the proxy did not close a client socket within the deadline: a hung or slow Session.Close cannot be told from a leak"
		return an
	}
	if (len(an.leaks) > 0 || len(an.dirty) > 0) && tr.HardDrops > 0 && shardedTimeout(tr) {
		an.skip = "RST-closed session after a sharded statement timed out: its close cannot be observed and may hang on the connection the abandoned statement still reads"
		return an
	}
	if len(an.leaks) > 0 {
		var parts []string
		for _, p := range tr.FinalPools {
			if p.InUse != 0 || p.Available != p.Capacity {
				parts = append(parts, p.String())
			}
		}
		kind := "leaked"
		for _, v := range an.leaks {
			if v < 0 {
				kind = "returned more than once"
			}
		}
		an.fail("final-pools", -1, "", 0, "after every client disconnected and the proxy closed every session: %s (connection %s); open backend connections in a transaction / autocommit off: %v", strings.Join(parts, " "), kind, an.dirty)
		return an
	}
	if len(an.dirty) > 0 {
		an.fail("final-open", -1, "", 0, "pools are quiet but backend connection(s) survive inside a transaction or with autocommit off: %v", an.dirty)
		return an
	}
	if !tr.FreshOK && (strings.Contains(tr.FreshErr, "timed out") || strings.Contains(tr.FreshErr, "timeout")) {
		an.skip = "the fresh session's statements hit max_sql_execute_time (machine too slow): inconclusive"
		return an
	}
	if !tr.FreshOK {
		an.fail("fresh", -1, "", 0, "pools are quiet but a fresh session cannot use every slice: %s", tr.FreshErr)
	}
	return an
}

func (an *analysis) fail(where string, step int, pool string, val int64, f string, a ...interface{}) {
	if an.violation != "" {
		return
	}
	an.where, an.step, an.firstBad, an.firstBadVal = where, step, pool, val
	an.violation = fmt.Sprintf(f, a...)
}

// shardedTimeout: some sharded-path statement hit max_sql_execute_time; Gaea goes on reading that connection from an
// abandoned goroutine, so whatever uses the connection next races with it.
func shardedTimeout(tr *sh.Trace) bool {
	for _, st := range tr.Steps {
		if st.Err != nil && strings.Contains(st.Err.Message, "execution timed out, sql : ") {
			return true
		}
	}
	return false
}

func faultStr(st sh.Step) string {
	if st.Cmd.F == nil {
		return "none"
	}
	s := fmt.Sprintf("%s/%s@slice%d", st.Cmd.F.On, st.Cmd.F.Action, st.Cmd.F.Slice)
	if st.FaultFired {
		return s + " fired on " + st.FaultConn.String()
	}
	return s + " not fired"
}

// ---- classification of failures that match a known finding ----
//
// The oracle above is a plain ledger. When it fails, predict() replays the history once more and works out,
// from what the client and the backends saw (error texts "execution timed out" / "broken pipe", which
// connections joined a transaction, where a close fault fired), exactly which pool slots the known defects
// would lose or return twice. Only a failure whose final counters equal that prediction is classified; any
// other deviation stays a violation.

type txConn struct {
	conn         sh.ConnKey
	closeFaulted bool // the backend closed this socket (close_before / close_after fault)
	closed       bool // the proxy's DirectConnection is flagged closed (write hit "broken pipe")
}

type prediction struct {
	leak      map[string]int64         // keep-session off: master pool name -> predicted InUse offset (lost slots minus double returns)
	offAt     map[int]map[string]int64 // the same offsets as they stood after each step
	abandoned map[sh.ConnKey]bool      // backend connections left behind inside their transaction (F1, F5)
	f1, f2    bool
	over      map[string]bool // keep-session: master pools that may be over-returned
	f3, f4    bool
	f5        bool
	f7        bool
	orphan    map[sh.ConnKey]bool // sockets opened by DirectConnection's reconnect after "broken pipe" (F6)
}

// fixedTree: F1-F5 are repaired in the tree under test (only the open findings' effects are predicted, and the
// connection bookkeeping follows the repaired behaviour).
func predict(c sh.Case, tr *sh.Trace, fixedTree bool) *prediction {
	p := &prediction{leak: map[string]int64{}, offAt: map[int]map[string]int64{}, abandoned: map[sh.ConnKey]bool{}, over: map[string]bool{}, orphan: map[sh.ConnKey]bool{}}
	nsess := len(c.RWSplit)
	type ps struct {
		txOpen, ac0 bool
		db          string
		conns       map[string]*txConn // transaction connections (keep-session off) or pins (keep-session on)
	}
	ss := make([]*ps, nsess)
	for i := range ss {
		ss[i] = &ps{db: "db", conns: map[string]*txConn{}}
	}
	cls := sh.ClassifyConns(tr.AllEvents)
	// closedBefore: which transaction connections were already flagged closed when the current command started. A
	// reconnect that happens inside rollback() itself (its own write hits the broken pipe) is followed by Recycle.
	closedBefore := map[*txConn]bool{}
	endSession := func(m *ps) {
		// ROLLBACK / COM_QUIT / Session.Close: closed transaction connections are skipped, not recycled (F2)
		if !c.KeepSession {
			for sl, tc := range m.conns {
				if tc.closed && closedBefore[tc] && !fixedTree {
					p.leak[sl+"/master"]++
					p.abandoned[tc.conn] = true // the reconnected socket is never closed either
					p.f2 = true
				}
			}
			m.conns = map[string]*txConn{}
		}
	}
	for _, st := range tr.Steps {
		if st.NoSession || st.Cmd.K == sh.KReload {
			continue
		}
		m := ss[st.Cmd.S]
		inTx := m.txOpen || m.ac0
		closedBefore = map[*txConn]bool{}
		for _, tc := range m.conns {
			if tc.closed {
				closedBefore[tc] = true
			}
		}
		msg := ""
		if st.Err != nil {
			msg = st.Err.Message
		}
		timeoutUn := strings.Contains(msg, "execution timed out, sql: ")
		epipe := strings.Contains(msg, "broken pipe")
		// connections that joined the transaction / were pinned during this command
		if inTx || c.KeepSession {
			heldBefore := map[string]bool{}
			for sl := range m.conns {
				heldBefore[sl] = true
			}
			for _, e := range st.Events {
				if e.Role != "master" {
					continue
				}
				if e.Kind == "initdb" && c.KeepSession && m.conns[e.Slice] == nil && cls[sh.Key(e)] == "session" {
					m.conns[e.Slice] = &txConn{conn: sh.Key(e)}
					continue
				}
				if e.Kind != "query" {
					continue
				}
				low := sh.Low(e)
				joined := (e.Outcome == "ok" && (low == "begin" || low == "set autocommit = 0") && !c.KeepSession) || (sh.HasTag(e.SQL, st.Tag))
				if c.KeepSession && m.conns[e.Slice] == nil {
					// keep-session pins a connection as soon as it is taken from the pool: whatever the session sends first
					joined = joined || cls[sh.Key(e)] == "session"
				}
				if joined {
					tc := m.conns[e.Slice]
					switch {
					case tc == nil:
						m.conns[e.Slice] = &txConn{conn: sh.Key(e)}
					case tc.conn != sh.Key(e) && tc.closed:
						tc.conn = sh.Key(e) // same pooled connection object, reconnected socket
					case tc.conn != sh.Key(e):
						m.conns[e.Slice] = &txConn{conn: sh.Key(e)}
					}
				}
			}
			if st.FaultFired && (st.Cmd.F.Action == sh.ActCloseBefore || st.Cmd.F.Action == sh.ActCloseAfter) {
				for _, tc := range m.conns {
					if tc.conn == st.FaultConn {
						tc.closeFaulted = true
					}
				}
			}
			// The session has a connection on the slice, so it does not take another one from the pool: a further
			// backend connection accepted on that master while the command ran (not a health-check or KILL helper) is
			// DirectConnection.writePacket reconnecting after "broken pipe", which leaves the connection flagged closed.
			for _, nk := range st.NewConns {
				i := strings.Index(nk.Server, "/")
				if i < 0 || nk.Server[i+1:] != "master" {
					continue
				}
				if cl := cls[nk]; cl != "session" && cl != "bare" {
					continue
				}
				if tc := m.conns[nk.Server[:i]]; tc != nil && tc.conn != nk && nk.ID > tc.conn.ID {
					tc.closed = true
					tc.conn = nk // the pooled connection now sits on the new socket
					p.orphan[nk] = true
				}
			}
		}
		switch {
		case sh.IsStmt(st.Cmd.K):
			unsharded := !sh.IsSharded(st.Cmd.K) || c.Slices < 2 || m.db != "db"
			if unsharded {
				tc := m.conns["slice-0"]
				// F5: opening the transaction / keep-session connection failed (BEGIN, SET autocommit=0 or the variable
				// sync was refused or the socket died): the connection is closed and recycled by getTransactionConn /
				// getBackendKsConn, returned together with the error, and recycled again by ExecuteSQL's deferred
				// recycleBackendConn, which also drops the transaction map.
				if fixedTree {
					// F7: a streamed reply (continueConn) on a connection that is flagged closed: ExecuteSQL's deferred
					// recycleBackendConn tests IsClosed() before it tests continueConn and recycles the connection, the
					// stream then fails and recycleContinueConn recycles it a second time.
					if (st.Cmd.K == sh.KUBig || st.Cmd.K == sh.KUMulti) && tc != nil && closedBefore[tc] {
						p.f7 = true
						p.leak["slice-0/master"]--
						delete(m.conns, "slice-0")
						break
					}
					if timeoutUn || epipe || (tc != nil && closedBefore[tc]) {
						delete(m.conns, "slice-0") // repaired: only the closed connection is forgotten and recycled once
					}
					break
				}
				if openFailed(msg) {
					p.f5 = true
					if c.KeepSession {
						p.over["slice-0/master"] = true
					} else {
						p.leak["slice-0/master"]--
						if inTx {
							for sl, o := range m.conns {
								p.leak[sl+"/master"]++
								p.abandoned[o.conn] = true
							}
							m.conns = map[string]*txConn{}
						}
					}
					break
				}
				trigger := timeoutUn || epipe || (tc != nil && closedBefore[tc]) // a reconnect during this very command shows up as "broken pipe" if the statement's own write caused it
				if !trigger {
					break
				}
				if c.KeepSession {
					// F3: the closed pinned connection is recycled but stays pinned
					p.over["slice-0/master"] = true
					p.f3 = true
					if tc != nil {
						tc.closed = true
					}
				} else if inTx {
					// F1: the whole transaction map is dropped; only the closed connection itself is recycled
					for sl, o := range m.conns {
						if sl != "slice-0" {
							p.leak[sl+"/master"]++
							p.abandoned[o.conn] = true
							p.f1 = true
						}
					}
					m.conns = map[string]*txConn{}
				}
			} else if epipe {
				for _, k := range st.Cmd.Keys {
					sl := fmt.Sprintf("slice-%d", k%c.Slices)
					if tc := m.conns[sl]; tc != nil && tc.closeFaulted {
						tc.closed = true
					}
				}
			}
		case st.Cmd.K == sh.KBegin || st.Cmd.K == sh.KStart:
			if st.OK {
				m.txOpen = true
			}
		case st.Cmd.K == sh.KAc0:
			if st.OK {
				m.ac0 = true
			}
		case st.Cmd.K == sh.KAc1:
			if m.ac0 {
				m.ac0, m.txOpen = false, false
				if !c.KeepSession {
					m.conns = map[string]*txConn{} // every transaction connection is recycled, closed or not
				}
			}
		case st.Cmd.K == sh.KCommit:
			m.txOpen = false
			if !c.KeepSession {
				m.conns = map[string]*txConn{}
			}
		case st.Cmd.K == sh.KRollback:
			m.txOpen = false
			endSession(m)
		case st.Cmd.K == sh.KUse:
			if st.OK {
				m.db = []string{"db", "db2"}[st.Cmd.N%2]
			}
		case st.Cmd.K == sh.KPing:
			if c.KeepSession && !st.OK && fixedTree {
				m.conns = map[string]*txConn{} // repaired: the recycled connections are unpinned
			} else if c.KeepSession && !st.OK {
				// F4: every pinned connection is recycled but stays pinned
				for sl := range m.conns {
					p.over[sl+"/master"] = true
				}
				p.f4 = true
			}
		case st.Cmd.K == sh.KQuit || st.Cmd.K == sh.KDrop || st.Cmd.K == sh.KDropHard:
			endSession(m)
		}
		if st.IOErr != "" || st.Cmd.K == sh.KDropFlight {
			endSession(m) // the client is gone: Session.Close
		}
		snap := map[string]int64{}
		for k, v := range p.leak {
			snap[k] = v
		}
		p.offAt[st.Idx] = snap
	}
	for _, m := range ss {
		closedBefore = map[*txConn]bool{}
		for _, tc := range m.conns {
			closedBefore[tc] = tc.closed
		}
		endSession(m) // the sessions still open at the end of the history are closed by the runner
	}
	return p
}

// openFailed: ExecuteSQL reports "getBackendConn failed" and the cause is not that no connection could be had from the
// pool (those errors carry "[ns=...]", "no master database", "is Down"): a connection was taken and then BEGIN /
// SET autocommit=0 / the variable sync failed on it.
func openFailed(msg string) bool {
	if !strings.Contains(msg, "getBackendConn failed: ") {
		return false
	}
	for _, m := range []string{"[ns=", "no master database", "no slave database", "is Down", "slice == nil"} {
		if strings.Contains(msg, m) {
			return false
		}
	}
	return true
}

// classify maps a failure to a known finding when, and only when, it matches that finding's root cause.
func classify(c sh.Case, tr *sh.Trace, an *analysis) string {
	if tr.StillChanging {
		return ""
	}
	p := predict(c, tr, false)
	// F6: the ledger is fine, but a socket that DirectConnection.writePacket opened when it reconnected after "broken
	// pipe" is still open (inside a transaction / autocommit off): the connection object stays flagged closed, so
	// Recycle gives the slot back without ever closing that socket.
	if an.where == "final-open" && len(an.dirty) > 0 {
		all := true
		for _, d := range an.dirty {
			if !p.orphan[d.Key] {
				all = false
			}
		}
		if all {
			return "C19-F6"
		}
		return ""
	}
	if pf := predict(c, tr, true); pf.f7 {
		if exactLedger(tr, an, pf) {
			return "C19-F7"
		}
		return ""
	}
	if c.KeepSession {
		if !p.f3 && !p.f4 && !p.f5 {
			return ""
		}
		// every anomaly, at any step and at the end, must be an over-return on a pool the trigger explains
		full := false
		check := func(ps []sh.PoolStat) bool {
			for _, q := range ps {
				if q.Available >= int64(c.MaxCap) {
					full = true
				}
				if q.InUse < 0 || q.Available > q.Capacity {
					if !p.over[q.Name] {
						return false
					}
				}
			}
			return true
		}
		for _, st := range tr.Steps {
			if !check(st.Pools) {
				return ""
			}
		}
		if !check(tr.FinalPools) {
			return ""
		}
		if !full {
			// no Put has panicked: nothing may be lost anywhere and the bound was never exceeded
			if an.where == "step" && an.firstBadVal > 0 {
				return ""
			}
			for _, q := range tr.FinalPools {
				if q.InUse > 0 || (!p.over[q.Name] && (q.InUse != 0 || q.Available != q.Capacity)) {
					return ""
				}
			}
		}
		switch {
		case p.f3:
			return "C19-F3"
		case p.f4:
			return "C19-F4"
		}
		return "C19-F5"
	}
	if os.Getenv("VERIF_TRACE") != "" {
		fmt.Printf("prediction: leak=%v abandoned=%v f1=%v f2=%v f5=%v dirty=%v\n", p.leak, p.abandoned, p.f1, p.f2, p.f5, an.dirty)
	}
	if !p.f1 && !p.f2 && !p.f5 {
		return ""
	}
	if !exactLedger(tr, an, p) {
		return ""
	}
	switch {
	case p.f5:
		return "C19-F5"
	case p.f1:
		return "C19-F1"
	}
	return "C19-F2"
}

// exactLedger: take the predicted effect of the known defects out of the counters and apply the same oracle.
func exactLedger(tr *sh.Trace, an *analysis, p *prediction) bool {
	for _, st := range tr.Steps {
		off, ok := p.offAt[st.Idx]
		if !ok {
			continue
		}
		for _, q := range st.Pools {
			b := an.bounds[st.Idx]
			if q.Role != "master" {
				b = 0
			}
			v := q.InUse - off[q.Name]
			if v < 0 || v > b {
				return false
			}
		}
	}
	for _, q := range tr.FinalPools {
		if q.InUse != p.leak[q.Name] || q.Available != q.Capacity-q.InUse {
			return false
		}
	}
	for _, d := range an.dirty {
		if !p.abandoned[d.Key] {
			return false
		}
	}
	return true
}

// ---- acquisition path: "this slice cannot give a connection right now" ----

type acqCmd struct {
	S, K, NKeys, Refuse, RSlice int
	Keys                        [3]int
}

// genAcquire draws short histories on a fresh namespace (pools still empty, capacity 1-2) that consist mostly of
// sharded statements touching 2-3 slices, inside and outside transactions and with keep-session on or off, half of
// them while the servers of one of the touched slices refuse new connections.
func genAcquire(t *rapid.T) sh.Case {
	c := sh.Case{} // no execution time limit: nothing stalls here, and a spurious timeout would only add noise
	c.Slices = rapid.SampledFrom([]int{2, 3, 3}).Draw(t, "slices")
	c.Replicas = rapid.SampledFrom([]int{0, 0, 1}).Draw(t, "replicas")
	c.Cap = rapid.IntRange(1, 2).Draw(t, "cap")
	c.MaxCap = c.Cap + 3
	c.KeepSession = rapid.IntRange(0, 2).Draw(t, "ks") == 0
	nsess := rapid.IntRange(1, 2).Draw(t, "sessions")
	for i := 0; i < nsess; i++ {
		c.RWSplit = append(c.RWSplit, rapid.Bool().Draw(t, "rwsplit"))
	}
	raws := rapid.SliceOfN(rapid.Custom(func(t *rapid.T) acqCmd {
		var r acqCmd
		r.S = rapid.IntRange(0, 1).Draw(t, "s")
		r.K = rapid.IntRange(0, 19).Draw(t, "k")
		r.NKeys = rapid.IntRange(2, 3).Draw(t, "nkeys")
		for i := range r.Keys {
			r.Keys[i] = rapid.IntRange(0, 8).Draw(t, "key")
		}
		r.Refuse = rapid.IntRange(0, 1).Draw(t, "refuse")
		r.RSlice = rapid.IntRange(0, 2).Draw(t, "rslice")
		return r
	}), 3, 10).Draw(t, "cmds")
	for _, r := range raws {
		cmd := sh.Cmd{S: r.S % nsess}
		switch {
		case r.K < 11:
			cmd.K = []string{sh.KSRead, sh.KSWrite, sh.KSForUpdate}[r.K%3]
			for j := 0; j < r.NKeys; j++ {
				cmd.Keys = append(cmd.Keys, r.Keys[j])
			}
			if r.Refuse == 1 {
				cmd.F = &sh.Fault{On: sh.OnConnect, Action: sh.ActRefuse, Slice: cmd.Keys[r.RSlice%len(cmd.Keys)] % c.Slices}
			}
		case r.K < 13:
			cmd.K = sh.KBegin
		case r.K < 14:
			cmd.K = sh.KAc0
		case r.K < 15:
			cmd.K = sh.KCommit
		case r.K < 16:
			cmd.K = sh.KRollback
		case r.K < 17:
			cmd.K = sh.KAc1
		case r.K < 19:
			cmd.K = sh.KURead
			if r.Refuse == 1 {
				cmd.F = &sh.Fault{On: sh.OnConnect, Action: sh.ActRefuse, Slice: 0}
			}
		default:
			cmd.K = sh.KDrop
		}
		c.Cmds = append(c.Cmds, cmd)
	}
	return c
}

func checkAcquire(c sh.Case) pbt.Outcome {
	o := checkCase(c)
	// non-trivial here: a refusal fired for a sharded statement touching two or more slices
	o.NonTrivial = false
	for _, l := range o.Labels {
		if l == "refused_multi_slice_statement" {
			o.NonTrivial = true
		}
	}
	return o
}

const ruleAcquire = "fresh namespace (empty pools, capacity 1-2, 2-3 slices), 1-2 sessions, keep-session on in a third: 3-10 commands, mostly sharded reads / writes / SELECT ... FOR UPDATE touching 2-3 slices, inside and outside transactions (BEGIN, autocommit=0), half of them while every server of one touched slice closes newly accepted sockets before the greeting (pool Get fails after its three dial attempts); non-trivial = such a refusal fired for a statement touching two or more slices. Same ledger oracle: per-command bounds and quiescence."

func TestC19Acquire(t *testing.T) {
	if _, err := proxyfix.Shared(); err != nil {
		t.Fatalf("fixture: the shared proxy did not start: %v", err) // inconclusive, not a violation
	}
	pbt.RunWith(t, pbt.Spec{ID: "C19", Sub: "acquire", Quick: 100, Thorough: 600, Rule: ruleAcquire, Floor: 0.25}, genAcquire,
		func(c sh.Case, rec *pbt.Recorder) pbt.Outcome { o := checkAcquire(c); reportTiming(rec); return o })
}

// ---- autocommit=0 without BEGIN, connection closed under the implicit transaction ----

// genAc0 draws short histories around one pattern: SET autocommit=0 (no BEGIN), statements, an unsharded statement
// whose connection the proxy closes (stall past max_sql_execute_time, mostly) or that the backend drops, then
// ROLLBACK / COMMIT / SET autocommit=1 / disconnect, then a little more traffic.
func genAc0(t *rapid.T) sh.Case {
	maxExecMs, stallMs := execLimits()
	c := sh.Case{MaxExecMs: maxExecMs, StallMs: stallMs}
	c.Slices = rapid.IntRange(1, 3).Draw(t, "slices")
	c.Replicas = rapid.IntRange(0, 1).Draw(t, "replicas")
	c.Cap = rapid.IntRange(1, 2).Draw(t, "cap")
	c.MaxCap = c.Cap + 3
	c.KeepSession = rapid.IntRange(0, 4).Draw(t, "ks") == 0
	c.RWSplit = []bool{rapid.Bool().Draw(t, "rwsplit"), false}
	stmt := func(name string, sess int) sh.Cmd {
		k := rapid.SampledFrom([]string{sh.KURead, sh.KUWrite, sh.KUForUpdate, sh.KSRead, sh.KSWrite}).Draw(t, name)
		cmd := sh.Cmd{S: sess, K: k, N: rapid.IntRange(0, 7).Draw(t, name+"_n")}
		if sh.IsSharded(k) {
			cmd.Keys = []int{rapid.IntRange(0, 8).Draw(t, name+"_k1"), rapid.IntRange(0, 8).Draw(t, name+"_k2")}
		}
		return cmd
	}
	for i := rapid.IntRange(0, 2).Draw(t, "prelude"); i > 0; i-- {
		c.Cmds = append(c.Cmds, stmt("pre", rapid.IntRange(0, 1).Draw(t, "pre_s")))
	}
	c.Cmds = append(c.Cmds, sh.Cmd{S: 0, K: sh.KAc0})
	for i := rapid.IntRange(0, 2).Draw(t, "before"); i > 0; i-- {
		c.Cmds = append(c.Cmds, stmt("before", 0))
	}
	victim := sh.Cmd{S: 0, K: rapid.SampledFrom([]string{sh.KURead, sh.KUWrite, sh.KUForUpdate}).Draw(t, "victim")}
	victim.F = &sh.Fault{On: sh.OnStmt, Slice: 0, Action: rapid.SampledFrom([]string{sh.ActStall, sh.ActStall, sh.ActStall, sh.ActCloseBefore, sh.ActCloseAfter}).Draw(t, "victim_fault")}
	if rapid.IntRange(0, 4).Draw(t, "victim_on") == 0 {
		victim.F.On = sh.OnInitDB
	}
	c.Cmds = append(c.Cmds, victim)
	for i := rapid.IntRange(0, 2).Draw(t, "between"); i > 0; i-- {
		c.Cmds = append(c.Cmds, stmt("between", rapid.SampledFrom([]int{0, 0, 1}).Draw(t, "between_s")))
	}
	c.Cmds = append(c.Cmds, sh.Cmd{S: 0, K: rapid.SampledFrom([]string{sh.KRollback, sh.KRollback, sh.KCommit, sh.KCommit, sh.KAc1, sh.KQuit, sh.KDrop}).Draw(t, "end")})
	for i := rapid.IntRange(0, 2).Draw(t, "after"); i > 0; i-- {
		c.Cmds = append(c.Cmds, stmt("after", rapid.IntRange(0, 1).Draw(t, "after_s")))
	}
	return c
}

func checkAc0(c sh.Case) pbt.Outcome {
	o := checkCase(c)
	o.NonTrivial = false
	for _, l := range o.Labels {
		if l == "autocommit0_statement_timed_out" {
			o.NonTrivial = true
		}
	}
	return o
}

const ruleAc0 = "1-2 sessions, 1-3 slices, keep-session mostly off: optional statements, SET autocommit=0 without BEGIN, 0-2 statements, an unsharded statement that stalls past max_sql_execute_time (3 in 5) or whose socket the backend closes, 0-2 statements, then ROLLBACK / COMMIT / SET autocommit=1 / COM_QUIT / FIN, then 0-2 statements; non-trivial = the statement under autocommit=0 really timed out. Same ledger oracle (per-command bounds; at the end InUse()==0 and Available()==Capacity())."

func TestC19Autocommit0(t *testing.T) {
	if _, err := proxyfix.Shared(); err != nil {
		t.Fatalf("fixture: the shared proxy did not start: %v", err) // inconclusive, not a violation
	}
	pbt.RunWith(t, pbt.Spec{ID: "C19", Sub: "autocommit0", Quick: 60, Thorough: 300, Rule: ruleAc0, Floor: 0.3}, genAc0,
		func(c sh.Case, rec *pbt.Recorder) pbt.Outcome { o := checkAc0(c); reportTiming(rec); return o })
}

const rule = "C18's command machine (1-3 sessions, 1-3 slices, keep-session on in a third) plus disconnects (COM_QUIT, FIN, FIN with a statement in flight, RST) and a fault per command with probability 0.3: SQL error / socket closed before or after the reply / stall past max_sql_execute_time (120 ms quick, 300 ms thorough) on the tagged statement, BEGIN, COMMIT, ROLLBACK, SET autocommit, the session-variable SET, COM_INIT_DB or a keep-session ping, on a slice the command touches; non-trivial = a fault fired inside an open transaction that holds another slice (or two), or during a keep-session statement"

func TestC19Ledger(t *testing.T) {
	if _, err := proxyfix.Shared(); err != nil {
		t.Fatalf("fixture: the shared proxy did not start: %v", err) // inconclusive, not a violation
	}
	gen := genCase
	if pbt.Tier() == "thorough" {
		gen = genCaseThorough
	}
	pbt.RunWith(t, pbt.Spec{ID: "C19", Sub: "ledger", Quick: 60, Thorough: 400, Rule: rule, Floor: 0.3}, gen,
		func(c sh.Case, rec *pbt.Recorder) pbt.Outcome { o := checkCase(c); reportTiming(rec); return o })
}
