//go:build verif

// C31 Online reload never loses or resurrects a namespace configuration.
//
// Histories of prepare(n, version) / commit(n) / delete(n) over two or three
// namespaces are applied to ONE real proxy/server.Manager (the statistics
// registry of Gaea is process-global, so a process can own one Manager; every
// case starts with a reset history that is itself checked). After every step
// the namespace view (Manager.GetNamespace) and the credential view
// (CheckUser / GetNamespaceByUser / CheckPassword) are compared with an
// abstract specification written from the property text, not from manager.go.
package c31

import (
	"encoding/json"
	"fmt"
	"os"
	"path/filepath"
	"runtime"
	"sort"
	"strings"
	"sync"
	"sync/atomic"
	"testing"
	"time"

	"github.com/XiaoMi/Gaea/models"
	"github.com/XiaoMi/Gaea/mysql"
	"github.com/XiaoMi/Gaea/proxy/server"
	"pgregory.net/rapid"
	"verifharness/internal/nsenv"
	"verifharness/internal/pbt"
)

var nsNames = []string{"nsa", "nsb", "nsc"}

const starved = "harness: reader goroutines made no progress for 180 s (machine overloaded)"

const (
	maxOps  = 16
	absent  = -1
	kPrep   = "prepare"
	kCommit = "commit"
	kDelete = "delete"
)

type op struct {
	K string `json:"k"`           // prepare | commit | delete
	N int    `json:"n"`           // namespace index into nsNames
	V int    `json:"v,omitempty"` // prepare only: version, unique inside the history (1..)
	// prepare only: 0 = valid configuration; 1..nsenv.BadKinds = a configuration
	// that server.NewNamespace rejects (the prepare is expected to fail)
	Bad int `json:"bad,omitempty"`
}

type histCase struct {
	Names   int  `json:"names"` // 2 or 3 namespaces in play
	Ops     []op `json:"ops"`
	Readers int  `json:"readers,omitempty"` // concurrent variant: number of reader goroutines
}

func (o op) String() string {
	if o.K == kPrep && o.Bad > 0 {
		return fmt.Sprintf("prepare(%s,v%d,BAD%d)", nsNames[o.N], o.V, o.Bad)
	}
	if o.K == kPrep {
		return fmt.Sprintf("prepare(%s,v%d)", nsNames[o.N], o.V)
	}
	return fmt.Sprintf("%s(%s)", o.K, nsNames[o.N])
}

// ---------------------------------------------------------------- generator

func genHist(t *rapid.T) histCase {
	c := histCase{Names: rapid.IntRange(2, 3).Draw(t, "names")}
	var ops []op
	// preamble: some namespaces already exist (created by an uninterleaved prepare+commit)
	for n := 0; n < c.Names; n++ {
		if rapid.IntRange(0, 2).Draw(t, "exists") > 0 {
			ops = append(ops, op{K: kPrep, N: n}, op{K: kCommit, N: n})
		}
	}
	pre := len(ops)
	switch mode := rapid.SampledFrom([]int{2, 3, 2, 3, 2, 3, 0, 1}).Draw(t, "mode"); mode {
	case 0: // free sequence of operations
		n := rapid.IntRange(1, 10).Draw(t, "len")
		for i := 0; i < n; i++ {
			k := rapid.SampledFrom([]string{kPrep, kPrep, kCommit, kCommit, kCommit, kDelete}).Draw(t, "k")
			o := op{K: k, N: rapid.IntRange(0, c.Names-1).Draw(t, "n")}
			if k == kPrep && rapid.IntRange(0, 3).Draw(t, "bad") == 0 {
				o.Bad = rapid.IntRange(1, nsenv.BadKinds).Draw(t, "badkind")
			}
			ops = append(ops, o)
		}
	default: // 1..3 administrators, each running a script of whole changes, interleaved
		admins := mode
		scripts := make([][]op, admins)
		for a := range scripts {
			tasks := rapid.IntRange(1, 3).Draw(t, "tasks")
			for i := 0; i < tasks; i++ {
				n := a % c.Names // administrators mostly work on different namespaces
				if rapid.IntRange(0, 2).Draw(t, "own") == 0 {
					n = rapid.IntRange(0, c.Names-1).Draw(t, "n")
				}
				switch rapid.IntRange(0, 7).Draw(t, "task") {
				case 0: // delete
					scripts[a] = append(scripts[a], op{K: kDelete, N: n})
				case 1: // abandoned change (prepare failed elsewhere: no commit follows)
					scripts[a] = append(scripts[a], op{K: kPrep, N: n})
				case 6: // a configuration the proxy rejects; the administrator stops there
					scripts[a] = append(scripts[a], op{K: kPrep, N: n, Bad: rapid.IntRange(1, nsenv.BadKinds).Draw(t, "badkind")})
				case 7: // ... or sends the commit regardless
					scripts[a] = append(scripts[a], op{K: kPrep, N: n, Bad: rapid.IntRange(1, nsenv.BadKinds).Draw(t, "badkind")}, op{K: kCommit, N: n})
				default: // full change
					scripts[a] = append(scripts[a], op{K: kPrep, N: n}, op{K: kCommit, N: n})
				}
			}
		}
		for {
			var live []int
			for a, s := range scripts {
				if len(s) > 0 {
					live = append(live, a)
				}
			}
			if len(live) == 0 || len(ops)-pre >= 10 {
				break
			}
			a := live[rapid.IntRange(0, len(live)-1).Draw(t, "who")]
			ops = append(ops, scripts[a][0])
			scripts[a] = scripts[a][1:]
		}
	}
	v := 0
	for i := range ops {
		if ops[i].K == kPrep {
			v++
			ops[i].V = v
		}
	}
	c.Ops = ops
	return c
}

func genConc(t *rapid.T) histCase {
	c := genHist(t)
	c.Readers = rapid.IntRange(1, 3).Draw(t, "readers")
	return c
}

// ---------------------------------------------------------------- the one Manager

var (
	mgrOnce sync.Once
	mgr     *server.Manager
	mgrErr  error
	logDir  string

	seenMu sync.Mutex
	seen   = map[*server.Namespace]struct{}{}
)

func manager() *server.Manager {
	mgrOnce.Do(func() {
		cfg := &models.Proxy{
			ConfigType: models.ConfigFile, Service: "c31", Cluster: "c31", Environ: "verif",
			LogPath: logDir, LogLevel: "fatal", LogFileName: "c31", LogOutput: "file",
			StatsEnabled: "false", StatsInterval: 1 << 20, ServerIdc: "c3", NumCPU: 1, SlowSQLTime: 1000,
		}
		// all names exist at start so that the per-namespace statistics entries are
		// created before the background tasks start (ReloadNamespacePrepare adds
		// missing entries to a plain map those tasks read)
		initial := map[string]*models.Namespace{}
		for _, n := range nsNames {
			initial[n] = nsenv.Config(n, 0)
		}
		mgr, mgrErr = server.CreateManager(cfg, initial)
		if mgrErr != nil {
			return
		}
		// Stop the statistics tickers: they read Manager.namespaces[<index at start>]
		// without synchronisation, which is outside this property but would be
		// reported by the race detector. (Manager.Close is therefore never called:
		// it would close the same channel again.)
		mgr.GetStatisticManager().Close()
	})
	if mgrErr != nil {
		panic("harness: CreateManager failed: " + mgrErr.Error())
	}
	return mgr
}

func remember(ns *server.Namespace) {
	if ns == nil {
		return
	}
	seenMu.Lock()
	seen[ns] = struct{}{}
	seenMu.Unlock()
}

func TestMain(m *testing.M) {
	nsenv.Quiet()
	base := filepath.Join(pbt.VerifDir(), "build")
	os.MkdirAll(base, 0o755)
	d, err := os.MkdirTemp(base, "c31-logs-")
	if err != nil {
		fmt.Println("harness: cannot create log dir:", err)
		os.Exit(2)
	}
	logDir = d
	rc := m.Run()
	if mgr != nil {
		for _, n := range nsNames {
			pbt.Catch(func() { mgr.DeleteNamespace(n) })
		}
	}
	seenMu.Lock()
	for ns := range seen {
		pbt.Catch(func() { ns.Close(false) })
	}
	seenMu.Unlock()
	os.RemoveAll(logDir)
	os.Exit(rc)
}

// ---------------------------------------------------------------- observation

type state [3]int // version per namespace, absent = -1

func (s state) String() string {
	var p []string
	for i, v := range s {
		if v == absent {
			p = append(p, nsNames[i]+":absent")
		} else {
			p = append(p, fmt.Sprintf("%s:v%d", nsNames[i], v))
		}
	}
	return "{" + strings.Join(p, " ") + "}"
}

// observeNamespaces is the namespace view: what a session resolving its namespace gets.
func observeNamespaces(m *server.Manager) (s state, problem string) {
	for i, n := range nsNames {
		ns := m.GetNamespace(n)
		if ns == nil {
			s[i] = absent
			continue
		}
		remember(ns)
		if ns.GetName() != n {
			problem = fmt.Sprintf("GetNamespace(%s) returned the namespace named %q", n, ns.GetName())
		}
		s[i] = ns.GetMaxResultSize() - nsenv.VersionBase
	}
	return
}

var salt = []byte("01234567890123456789")

// credentialDiff compares the credential view with the one implied by `want`
// for all versions 0..maxV; empty string = equal.
func credentialDiff(m *server.Manager, want state, maxV int) string {
	var bad []string
	anyActive := false
	for i, n := range nsNames {
		if want[i] != absent {
			anyActive = true
		}
		for v := 0; v <= maxV; v++ {
			on := want[i] == v
			u, pw, spw := nsenv.UserName(n, v), nsenv.UserPassword(n, v), nsenv.SharedPassword(n, v)
			if got := m.CheckUser(u); got != on {
				bad = append(bad, fmt.Sprintf("CheckUser(%s)=%v want %v", u, got, on))
			}
			wantNS := ""
			if on {
				wantNS = n
			}
			if got := m.GetNamespaceByUser(u, pw); got != wantNS {
				bad = append(bad, fmt.Sprintf("GetNamespaceByUser(%s)=%q want %q", u, got, wantNS))
			}
			if got := m.GetNamespaceByUser(nsenv.SharedUser, spw); got != wantNS {
				bad = append(bad, fmt.Sprintf("GetNamespaceByUser(shared,%s)=%q want %q", spw, got, wantNS))
			}
			ok, gotPw := m.CheckPassword(nsenv.SharedUser, salt, mysql.CalcPassword(salt, []byte(spw)))
			if ok != on || (ok && gotPw != spw) {
				bad = append(bad, fmt.Sprintf("CheckPassword(shared,%s)=%v,%q want %v", spw, ok, gotPw, on))
			}
		}
		// the namespace object and the credential view must describe the same version
		if want[i] != absent {
			if ns := m.GetNamespace(n); ns != nil && ns.GetMaxResultSize()-nsenv.VersionBase == want[i] {
				if p := pbt.Catch(func() {
					if !ns.IsAllowWrite(nsenv.UserName(n, want[i])) {
						bad = append(bad, fmt.Sprintf("namespace %s v%d does not know its read-write user", n, want[i]))
					}
				}); p != "" {
					bad = append(bad, fmt.Sprintf("namespace %s v%d has no properties for its own user (%s)", n, want[i], p))
				}
			}
		}
	}
	if got := m.CheckUser(nsenv.SharedUser); got != anyActive {
		bad = append(bad, fmt.Sprintf("CheckUser(shared)=%v want %v", got, anyActive))
	}
	if len(bad) > 3 {
		bad = append(bad[:3], fmt.Sprintf("... and %d more", len(bad)-3))
	}
	return strings.Join(bad, "; ")
}

// ---------------------------------------------------------------- history shape

// lastPrepare returns the index of the last prepare of namespace n before step k, or -1.
func lastPrepare(ops []op, k, n int) int {
	for j := k - 1; j >= 0; j-- {
		if ops[j].K == kPrep && ops[j].N == n {
			return j
		}
	}
	return -1
}

// interleaved is the property's non-trivial rule: an operation on another
// namespace lies between a prepare and the next commit of the same namespace.
func interleaved(ops []op) bool {
	for k, o := range ops {
		if o.K != kCommit {
			continue
		}
		p := lastPrepare(ops, k, o.N)
		if p < 0 {
			continue
		}
		for j := p + 1; j < k; j++ {
			if ops[j].N != o.N {
				return true
			}
		}
	}
	return false
}

// ---------------------------------------------------------------- defect model (classification only)

// flawed is a model of the design defect recorded as C31-F1/F2 (one shared
// "other" generation and one global prepared flag). It is used ONLY to decide
// whether an already detected violation is that known defect; the oracle is
// the specification in run().
type flawed struct {
	cur, other state
	flag       bool
}

func newFlawed() *flawed {
	return &flawed{cur: state{absent, absent, absent}, other: state{absent, absent, absent}}
}

// step returns whether the flawed design would panic at this step.
func (f *flawed) step(o op, failed bool) (panics bool) {
	switch o.K {
	case kPrep:
		if failed {
			return
		}
		f.other = f.cur
		f.other[o.N] = o.V
		f.flag = true
	case kCommit:
		if !f.flag {
			return
		}
		f.flag = false
		f.cur, f.other = f.other, f.cur
		return f.cur[o.N] == absent
	case kDelete:
		if f.cur[o.N] == absent {
			return
		}
		f.other = f.cur
		f.other[o.N] = absent
		f.cur, f.other = f.other, f.cur
	}
	return
}

// ---------------------------------------------------------------- concurrent readers

type rec struct {
	C1, C2 int32 // step counter before / after the lookup (2k+1: operation k running, 2k+2: finished)
	Kind   int8  // 0 GetNamespace, 1 GetNamespaceByUser(per-version user), 2 CheckUser(shared)
	N, V   int8
	Val    int16 // kind 0: version or -1; kinds 1,2: 0/1
}

type reader struct {
	ticks atomic.Int64
	recs  map[rec]struct{}
	died  atomic.Value // string
}

func (r *reader) loop(m *server.Manager, ctr *atomic.Int32, stop *atomic.Bool, maxV int, wg *sync.WaitGroup) {
	defer wg.Done()
	defer func() {
		if p := recover(); p != nil {
			r.died.Store(fmt.Sprint(p))
		}
	}()
	b := func(x bool) int16 {
		if x {
			return 1
		}
		return 0
	}
	for !stop.Load() {
		for i, n := range nsNames {
			c1 := ctr.Load()
			ns := m.GetNamespace(n)
			ver := int16(absent)
			if ns != nil {
				ver = int16(ns.GetMaxResultSize() - nsenv.VersionBase)
			}
			c2 := ctr.Load()
			r.recs[rec{c1, c2, 0, int8(i), 0, ver}] = struct{}{}
			for v := 1; v <= maxV; v++ {
				c1 = ctr.Load()
				got := m.GetNamespaceByUser(nsenv.UserName(n, v), nsenv.UserPassword(n, v)) == n
				c2 = ctr.Load()
				r.recs[rec{c1, c2, 1, int8(i), int8(v), b(got)}] = struct{}{}
			}
		}
		c1 := ctr.Load()
		got := m.CheckUser(nsenv.SharedUser)
		c2 := ctr.Load()
		r.recs[rec{c1, c2, 2, 0, 0, b(got)}] = struct{}{}
		r.ticks.Add(1)
		runtime.Gosched()
	}
}

// ---------------------------------------------------------------- the check

// resetManager brings the one Manager to "no namespace, nothing prepared".
// It returns a violation text if that (uninterleaved) history misbehaves.
func resetManager(m *server.Manager, maxV int) string {
	// Reset: a history without any interleaving, checked like every other one.
	// Every namespace gets prepare(v0)+commit (which also settles whatever an
	// earlier case left prepared), then everything is deleted.
	var resetErr string
	if p := pbt.Catch(func() {
		for _, n := range nsNames {
			if err := m.ReloadNamespacePrepare(nsenv.Config(n, 0)); err != nil {
				resetErr = fmt.Sprintf("prepare(%s,v0): %v", n, err)
				return
			}
			if err := m.ReloadNamespaceCommit(n); err != nil {
				resetErr = fmt.Sprintf("commit(%s) directly after its prepare: %v", n, err)
				return
			}
			if got, _ := observeNamespaces(m); got[indexOf(n)] != 0 {
				resetErr = fmt.Sprintf("after prepare(%s,v0); commit(%s) the namespace view is %v", n, n, got)
				return
			}
		}
		for _, n := range nsNames {
			if err := m.DeleteNamespace(n); err != nil {
				resetErr = fmt.Sprintf("delete(%s): %v", n, err)
				return
			}
		}
	}); p != "" {
		resetErr = "runtime panic: " + p
	}
	empty := state{absent, absent, absent}
	if resetErr == "" {
		got, prob := observeNamespaces(m)
		if got != empty || prob != "" {
			resetErr = fmt.Sprintf("after deleting every namespace the view is %v %s", got, prob)
		} else if d := credentialDiff(m, empty, maxV); d != "" {
			resetErr = "after deleting every namespace credentials remain: " + d
		}
	}
	if resetErr != "" {
		return "reset history (prepare+commit of each namespace, then delete each; no interleaving) failed: " + resetErr
	}
	return ""

}

func checkSeq(c histCase) pbt.Outcome  { c.Readers = 0; return run(c) }
func checkConc(c histCase) pbt.Outcome { return run(c) }

func run(c histCase) (o pbt.Outcome) {
	if c.Names < 2 || c.Names > 3 || len(c.Ops) > maxOps || c.Readers < 0 || c.Readers > 4 {
		o.Skip = "malformed case"
		return
	}
	maxV := 0
	for _, x := range c.Ops {
		if x.N < 0 || x.N >= c.Names || (x.K != kPrep && x.K != kCommit && x.K != kDelete) || x.V < 0 || x.V > 100 || x.Bad < 0 || x.Bad > nsenv.BadKinds {
			o.Skip = "malformed case"
			return
		}
		if x.K == kPrep && x.V > maxV {
			maxV = x.V
		}
	}
	m := manager()

	if v := resetManager(m, maxV); v != "" {
		o.Violation = v
		return
	}
	empty := state{absent, absent, absent}

	// specification state
	active := empty
	pending := state{absent, absent, absent}
	states := []state{active} // states[i] = specification state after i operations
	fl := newFlawed()
	effDelete := make([]bool, len(c.Ops))
	prepOK := make([]bool, len(c.Ops)) // the prepare at this step returned nil

	// readers
	var (
		ctr     atomic.Int32
		stop    atomic.Bool
		wg      sync.WaitGroup
		readers []*reader
	)
	for i := 0; i < c.Readers; i++ {
		r := &reader{recs: map[rec]struct{}{}}
		readers = append(readers, r)
		wg.Add(1)
		go r.loop(m, &ctr, &stop, maxV, &wg)
	}
	stopReaders := func() {
		stop.Store(true)
		wg.Wait()
	}
	// quiesce: every reader completes at least two full sweeps, so that at least one
	// sweep lies entirely between two operations, and (for the race detector) every
	// lookup is ordered before the next operation but one.
	quiesce := func() string {
		if freeReaders {
			return ""
		}
		base := make([]int64, len(readers))
		for i, r := range readers {
			base[i] = r.ticks.Load()
		}
		deadline := time.Now().Add(180 * time.Second)
		for i, r := range readers {
			for r.ticks.Load() < base[i]+2 {
				if d := r.died.Load(); d != nil {
					return "reader goroutine panicked: " + d.(string)
				}
				if time.Now().After(deadline) {
					return starved
				}
				time.Sleep(20 * time.Microsecond)
			}
		}
		return ""
	}
	if q := quiesce(); q != "" {
		stopReaders()
		if q == starved {
			o.Skip = starved
		} else {
			o.Violation = q
		}
		return
	}

	o.NonTrivial = interleaved(c.Ops)
	if o.NonTrivial {
		o.Labels = append(o.Labels, "interleaved")
	} else {
		o.Labels = append(o.Labels, "not_interleaved")
	}
	commitsOK, commitsRejected := 0, 0
	validStates := len(c.Ops) // reader records are judged up to this specification state

	fail := func(k int, detail string, panicked bool, got state) {
		validStates = k
		x := c.Ops[k]
		full := fmt.Sprintf("step %d %v of %v: %s", k, x, c.Ops, detail)
		// classification: is this the known design defect?
		if x.K == kCommit {
			// last SUCCESSFUL prepare of this namespace; a rejected prepare writes nothing
			p := -1
			for j := k - 1; j >= 0; j-- {
				if c.Ops[j].K == kPrep && c.Ops[j].N == x.N && prepOK[j] {
					p = j
					break
				}
			}
			otherWrite, sameDelete := false, false
			for j := p + 1; j < k; j++ {
				y := c.Ops[j]
				if y.N != x.N && (y.K == kPrep && prepOK[j] || effDelete[j]) {
					otherWrite = true
				}
				if y.N == x.N && effDelete[j] {
					sameDelete = true
				}
			}
			predicted := fl.cur == got && credentialDiff(m, fl.cur, maxV) == ""
			switch {
			case otherWrite && predicted:
				o.Known, o.KnownWhat = "C31-F1", full
				o.Labels = append(o.Labels, "known_F1")
				if panicked {
					o.Labels = append(o.Labels, "known_F1_commit_panicked")
				}
				return
			case !otherWrite && sameDelete && p >= 0 && predicted && !panicked:
				o.Known, o.KnownWhat = "C31-F2", full
				o.Labels = append(o.Labels, "known_F2")
				return
			}
		}
		o.Violation = full
	}

steps:
	for k, x := range c.Ops {
		var err error
		ctr.Store(int32(2*k + 1))
		panicked := pbt.Catch(func() {
			switch x.K {
			case kPrep:
				if x.Bad > 0 {
					err = m.ReloadNamespacePrepare(nsenv.BadConfig(nsNames[x.N], x.V, x.Bad))
				} else {
					err = m.ReloadNamespacePrepare(nsenv.Config(nsNames[x.N], x.V))
				}
			case kCommit:
				err = m.ReloadNamespaceCommit(nsNames[x.N])
			case kDelete:
				err = m.DeleteNamespace(nsNames[x.N])
			}
		})
		ctr.Store(int32(2*k + 2))

		// specification
		before := active
		switch x.K {
		case kPrep:
			// a prepare that fails changes nothing: the active configurations stay and what
			// the last SUCCESSFUL prepare staged for the namespace stays pending
			if err == nil && panicked == "" {
				pending[x.N] = x.V
				prepOK[k] = true
				if x.Bad > 0 {
					o.Labels = append(o.Labels, fmt.Sprintf("bad_config_%d_accepted", x.Bad))
				}
			} else {
				o.Labels = append(o.Labels, "prepare_rejected")
				if x.Bad == 0 {
					o.Labels = append(o.Labels, "valid_config_rejected")
				}
			}
		case kCommit:
			if err == nil && panicked == "" {
				commitsOK++
				if pending[x.N] != absent {
					active[x.N] = pending[x.N]
					pending[x.N] = absent
				} else {
					// nothing is prepared for this namespace: a commit that reports
					// success has nothing to activate and must change nothing
					o.Labels = append(o.Labels, "commit_ok_without_pending")
				}
			} else if err != nil {
				commitsRejected++
			}
		case kDelete:
			if err == nil && panicked == "" {
				effDelete[k] = active[x.N] != absent
				active[x.N] = absent
			}
		}
		if panicked != "" {
			// an operation that blows up has not succeeded: nothing may have changed
			active = before
		}
		states = append(states, active)
		flPanics := fl.step(x, err != nil)

		got, prob := observeNamespaces(m)
		detail := ""
		switch {
		case panicked != "":
			detail = "runtime panic: " + panicked + fmt.Sprintf(" (view afterwards %v, must be %v)", got, active)
			_ = flPanics
		case prob != "":
			detail = prob
		case got != active:
			detail = fmt.Sprintf("returned %v; namespace view is %v, the specification says %v (before the step: %v)", err, got, active, before)
		default:
			if d := credentialDiff(m, active, maxV); d != "" {
				detail = fmt.Sprintf("returned %v; namespace view %v is right but the credential view is not: %s", err, got, d)
			}
		}
		if detail != "" {
			if panicked != "" && !flPanics {
				// a panic the known defect does not explain is never classified
				validStates = k
				o.Violation = fmt.Sprintf("step %d %v of %v: %s", k, x, c.Ops, detail)
				break steps
			}
			fail(k, detail, panicked != "", got)
			break steps
		}
		if q := quiesce(); q != "" {
			validStates = k
			if q == starved {
				// an overloaded machine, not an observation about Gaea (a lookup that really
				// hangs shows up as a mass of skips, which fails the sub-check as inconclusive)
				o.Skip = starved
			} else {
				o.Violation = fmt.Sprintf("during/after step %d %v of %v: %s", k, x, c.Ops, q)
			}
			break steps
		}
	}
	stopReaders()
	if o.Skip != "" {
		return pbt.Outcome{Skip: o.Skip}
	}
	if commitsOK > 0 {
		o.Labels = append(o.Labels, "has_successful_commit")
	}
	for k, x := range c.Ops {
		if x.K == kPrep && x.Bad > 0 && k < len(prepOK) && !prepOK[k] && k < validStates {
			o.Labels = append(o.Labels, "has_failed_prepare")
			break
		}
	}
	if commitsRejected > 0 {
		o.Labels = append(o.Labels, "has_rejected_commit")
	}
	if o.Violation != "" {
		return
	}

	// judge what the readers saw
	if len(readers) > 0 {
		overlap := false
		var bad []string
		for ri, r := range readers {
			if d := r.died.Load(); d != nil {
				o.Violation = "reader goroutine panicked: " + d.(string)
				return
			}
			for rc := range r.recs {
				lo, hi := int(rc.C1)/2, (int(rc.C2)+1)/2
				if hi > validStates {
					continue
				}
				if hi > lo && states[hi] != states[lo] {
					overlap = true
				}
				ok := false
				var allowed []string
				for i := lo; i <= hi && !ok; i++ {
					s := states[i]
					switch rc.Kind {
					case 0:
						ok = int(rc.Val) == s[rc.N]
						allowed = append(allowed, fmt.Sprint(s[rc.N]))
					case 1:
						ok = (rc.Val == 1) == (s[rc.N] == int(rc.V))
					case 2:
						ok = (rc.Val == 1) == (s != state{absent, absent, absent})
					}
				}
				if !ok {
					what := ""
					switch rc.Kind {
					case 0:
						what = fmt.Sprintf("GetNamespace(%s) gave version %d, allowed %v", nsNames[rc.N], rc.Val, allowed)
					case 1:
						what = fmt.Sprintf("GetNamespaceByUser(user of %s v%d) matched=%d", nsNames[rc.N], rc.V, rc.Val)
					case 2:
						what = fmt.Sprintf("CheckUser(shared)=%d", rc.Val)
					}
					bad = append(bad, fmt.Sprintf("reader %d between specification states %d..%d (%v..%v): %s", ri, lo, hi, states[lo], states[hi], what))
				}
			}
		}
		if overlap {
			o.Labels = append(o.Labels, "lookup_overlapped_a_switch")
		}
		if len(bad) > 0 {
			sort.Strings(bad)
			if len(bad) > 3 {
				bad = bad[:3]
			}
			msg := fmt.Sprintf("history %v: a session-side lookup saw a value that was not active at any moment of the lookup: %s", c.Ops, strings.Join(bad, " | "))
			if o.Known == "" {
				o.Violation = msg
			} else {
				// readers are judged only on the prefix before the classified step; a bad
				// lookup there is a different violation
				o.Known, o.KnownWhat = "", ""
				o.Violation = msg
			}
		}
	}
	return
}

func indexOf(n string) int {
	for i, x := range nsNames {
		if x == n {
			return i
		}
	}
	return -1
}


// ---------------------------------------------------------------- race detector reports

// The race runtime (GORACE=halt_on_error=0 log_path=...) appends its reports to
// log_path.<pid>. A report is a violation of this property's concurrency clause,
// but the testing package only says "race detected", so each concurrent
// sub-check looks at the log when it ends and emits the driver's VIOLATION line
// with the case that was running last.
var raceSeen int

func raceReports() (n int, first string) {
	lp := ""
	for _, f := range strings.Fields(os.Getenv("GORACE")) {
		if strings.HasPrefix(f, "log_path=") {
			lp = strings.TrimPrefix(f, "log_path=")
		}
	}
	if lp == "" {
		return
	}
	b, err := os.ReadFile(fmt.Sprintf("%s.%d", lp, os.Getpid()))
	if err != nil {
		return
	}
	blocks := strings.Split(string(b), "WARNING: DATA RACE")
	n = len(blocks) - 1
	if n > raceSeen {
		// the two access stacks of the first new report, Gaea and harness frames only
		var frames []string
		for _, line := range strings.Split(blocks[raceSeen+1], "\n") {
			l := strings.TrimSpace(line)
			if strings.HasPrefix(l, "Write at") || strings.HasPrefix(l, "Read at") || strings.HasPrefix(l, "Previous") {
				frames = append(frames, l)
			} else if strings.HasPrefix(l, "github.com/XiaoMi/Gaea/") && len(frames) < 10 {
				frames = append(frames, strings.TrimPrefix(l, "github.com/XiaoMi/Gaea/"))
			}
			if strings.HasPrefix(l, "Goroutine ") {
				break
			}
		}
		first = strings.Join(frames, " <- ")
	}
	return
}

func raceGuard(t *testing.T, sub string, last func() interface{}) {
	n, first := raceReports()
	if n <= raceSeen {
		return
	}
	newReports := n - raceSeen
	raceSeen = n
	dir := filepath.Join(pbt.VerifDir(), "build", "fail")
	os.MkdirAll(dir, 0o755)
	p := filepath.Join(dir, fmt.Sprintf("C31-%s-race-seed%d.json", sub, pbt.Seed()))
	detail := fmt.Sprintf("the race detector reported %d data race(s) during sub-check %s (needs the -race build to reproduce); first: %s", newReports, sub, first)
	cj, _ := json.Marshal(last())
	b, _ := json.MarshalIndent(map[string]interface{}{"property": "C31", "sub": sub, "expect": "pass", "detail": detail, "case": json.RawMessage(cj)}, "", " ")
	os.WriteFile(p, b, 0o644)
	fmt.Printf("VIOLATION property=C31 replay=%s\n  detail: %s\n", p, detail)
	t.Errorf("violation: %s", detail)
}

// ---------------------------------------------------------------- tests

// freeReaders (probe only, never set by the driver): readers are not held to
// "a lookup overlaps at most one operation". Used to show what the race
// detector says about lookups that straddle a commit and the next prepare.
var freeReaders = os.Getenv("C31_FREE_READERS") == "1"

func raceRun() bool { return os.Getenv("VERIF_RACE") == "1" }

func TestC31Sequential(t *testing.T) {
	if raceRun() {
		t.Skip("sequential histories are run by the plain build")
	}
	pbt.Run(t, pbt.Spec{ID: "C31", Sub: "sequential", Quick: 1000, Thorough: 5000,
		Rule: "histories of <=12 prepare(n,version)/commit(n)/delete(n) over 2-3 namespaces: free sequences (1/5) or 1-3 administrators' scripts of whole changes (prepare+commit), abandoned prepares, deletes and prepares of configurations that server.NewNamespace rejects (bad slow_sql_time, charset/collation mismatch, unknown default slice, shard rule on an unknown slice; with or without a commit sent afterwards), interleaved in a drawn order; a rejected prepare must change nothing (active stays, pending stays what the last successful prepare staged); applied to a real server.Manager, namespace and credential views compared with the specification after every step; non-trivial = an operation on another namespace lies between a prepare and the next commit of the same namespace",
		Floor: 0.35}, genHist, checkSeq)
}

func TestC31Concurrent(t *testing.T) {
	quick, thorough := 100, 300
	if raceRun() {
		quick, thorough = 60, 150 // the race runtime allows 8128 live goroutines; Gaea parks one per replaced namespace for 60 s
	}
	var last histCase
	var rec *pbt.Recorder
	defer raceGuard(t, "concurrent", func() interface{} { return last })
	pbt.RunWith(t, pbt.Spec{ID: "C31", Sub: "concurrent", Quick: quick, Thorough: thorough,
		Rule: "the same histories issued by one writer while 1-3 reader goroutines sweep GetNamespace / GetNamespaceByUser / CheckUser; every lookup is stamped with the step counter before and after and must return a value the specification had at some moment in that window; readers complete two sweeps between consecutive operations (a lookup overlaps at most one operation); run under -race in the thorough tier; non-trivial = interleaved history (as in the sequential sub-check)",
		Floor: 0.3}, genConc, func(c histCase, r *pbt.Recorder) pbt.Outcome {
		writeLastInput(c)
		last = c
		rec = r
		return checkConc(c)
	})
	if rec != nil {
		skipped := 0
		for _, n := range rec.Skipped {
			skipped += n
		}
		if skipped*10 > rec.Evaluations {
			t.Fatalf("inconclusive: %d cases skipped against %d evaluated (%v)", skipped, rec.Evaluations, rec.Skipped)
		}
	}
}

// writeLastInput leaves the running case where the driver looks for it when
// the process dies (fatal "concurrent map read and map write", race runtime abort).
func writeLastInput(c histCase) {
	d := os.Getenv("VERIF_OUT")
	if d == "" {
		return
	}
	cj, _ := json.Marshal(c)
	b, _ := json.Marshal(map[string]interface{}{"property": "C31", "sub": "concurrent", "expect": "pass", "case": json.RawMessage(cj)})
	os.WriteFile(filepath.Join(d, "last_input.json"), b, 0o644)
}

// ---------------------------------------------------------------- new names while the metrics ticker runs

// A namespace name the proxy has never seen makes ReloadNamespacePrepare add an
// entry to StatisticManager.SQLResponsePercentile, a map that the 4 s metrics
// ticker iterates (StatisticManager.CalcAvgSQLTimes) and sessions read. An
// unguarded insert there is a fatal "concurrent map iteration and map write"
// (fixed in d2154c0). The histories above use three names that exist from the
// start, so this sub-check covers the fresh-name path: one goroutine plays the
// ticker by calling the exported CalcAvgSQLTimes back to back (exactly one, as
// in the proxy) while the writer prepares / commits / deletes fresh names and
// checks the namespace and credential views of the fresh name after each step.
// Under -race an unsynchronised insert is reported on the first case.

type freshCase struct {
	Fresh   int   `json:"fresh"`   // 1..3 never-seen names
	Rounds  []int `json:"rounds"`  // per name: number of prepare+commit rounds (1..2)
	Abandon bool  `json:"abandon"` // last name: prepare only, never committed
}

func genFresh(t *rapid.T) freshCase {
	c := freshCase{Fresh: rapid.IntRange(1, 3).Draw(t, "fresh"), Abandon: rapid.Bool().Draw(t, "abandon")}
	for i := 0; i < c.Fresh; i++ {
		c.Rounds = append(c.Rounds, rapid.IntRange(1, 2).Draw(t, "rounds"))
	}
	return c
}

var freshCounter atomic.Int64

func checkFresh(c freshCase) (o pbt.Outcome) {
	if c.Fresh < 1 || c.Fresh > 3 || len(c.Rounds) != c.Fresh {
		o.Skip = "malformed case"
		return
	}
	m := manager()
	sm := m.GetStatisticManager()
	var (
		stop  atomic.Bool
		calls atomic.Int64
		died  atomic.Value
		wg    sync.WaitGroup
	)
	wg.Add(1)
	go func() { // the metrics ticker (task 2 of startConnectPoolMetricsTask), without the 4 s pause
		defer wg.Done()
		defer func() {
			if p := recover(); p != nil {
				died.Store(fmt.Sprint(p))
			}
		}()
		for !stop.Load() {
			sm.CalcAvgSQLTimes()
			calls.Add(1)
		}
	}()
	waitCalls := func(n int64) string {
		base := calls.Load()
		deadline := time.Now().Add(180 * time.Second)
		for calls.Load() < base+n {
			if d := died.Load(); d != nil {
				return "the metrics computation panicked: " + d.(string)
			}
			if time.Now().After(deadline) {
				return "harness: CalcAvgSQLTimes made no progress"
			}
			time.Sleep(200 * time.Microsecond)
		}
		return ""
	}
	defer func() {
		stop.Store(true)
		wg.Wait()
	}()

	var names []string
	fail := func(f string, a ...interface{}) {
		if o.Violation == "" {
			o.Violation = fmt.Sprintf(f, a...)
		}
	}
	view := func(name string) int {
		ns := m.GetNamespace(name)
		if ns == nil {
			return absent
		}
		remember(ns)
		return ns.GetMaxResultSize() - nsenv.VersionBase
	}
	if p := pbt.Catch(func() {
		for i := 0; i < c.Fresh && o.Violation == ""; i++ {
			name := fmt.Sprintf("fresh%d", freshCounter.Add(1))
			names = append(names, name)
			for r := 1; r <= c.Rounds[i] && o.Violation == ""; r++ {
				before := view(name)
				if err := m.ReloadNamespacePrepare(nsenv.Config(name, r)); err != nil {
					fail("prepare(%s,v%d) rejected: %v", name, r, err)
					return
				}
				if got := view(name); got != before {
					fail("prepare(%s,v%d) alone changed the active version from %d to %d", name, r, before, got)
					return
				}
				if i == c.Fresh-1 && r == c.Rounds[i] && c.Abandon {
					o.Labels = append(o.Labels, "abandoned_prepare")
					break
				}
				if err := m.ReloadNamespaceCommit(name); err != nil {
					fail("commit(%s) directly after its prepare: %v", name, err)
					return
				}
				if got := view(name); got != r {
					fail("after prepare(%s,v%d); commit the active version is %d", name, r, got)
					return
				}
				if got := m.GetNamespaceByUser(nsenv.UserName(name, r), nsenv.UserPassword(name, r)); got != name {
					fail("after commit of %s v%d its user resolves to %q", name, r, got)
					return
				}
			}
		}
		// every earlier fresh name is still there at its last committed version
		for i, name := range names {
			want := c.Rounds[i]
			if i == c.Fresh-1 && c.Abandon {
				want--
				if want == 0 {
					want = absent
				}
			}
			if got := view(name); got != want && o.Violation == "" {
				fail("namespace %s is at version %d after the other fresh names were added, want %d", name, got, want)
			}
		}
	}); p != "" {
		fail("runtime panic while reloading a fresh name: %s", p)
	}
	// the ticker must get through a whole computation that started after the last insert
	starvedTicker := false
	if q := waitCalls(2); q != "" {
		if strings.HasPrefix(q, "harness:") {
			starvedTicker = true // overloaded machine; reported as a skip below
		} else {
			fail("%s", q)
		}
	}
	// leave nothing behind: settle an abandoned prepare, delete the fresh names
	pbt.Catch(func() {
		if c.Abandon && len(names) > 0 {
			last := names[len(names)-1]
			m.ReloadNamespacePrepare(nsenv.Config(last, 9))
			m.ReloadNamespaceCommit(last)
		}
		for _, name := range names {
			if err := m.DeleteNamespace(name); err != nil {
				fail("delete(%s): %v", name, err)
			}
			if got := view(name); got != absent {
				fail("namespace %s still at version %d after delete", name, got)
			}
		}
	})
	if starvedTicker && o.Violation == "" {
		return pbt.Outcome{Skip: "harness: CalcAvgSQLTimes made no progress for 180 s (machine overloaded)"}
	}
	o.NonTrivial = true
	o.Labels = append(o.Labels, fmt.Sprintf("fresh_names_%d", c.Fresh))
	return
}

func TestC31FreshNames(t *testing.T) {
	quick, thorough := 25, 120
	if raceRun() {
		quick, thorough = 20, 40 // statistics entries are never removed; one CalcAvgSQLTimes costs 1 ms per name ever seen
	}
	var last freshCase
	defer raceGuard(t, "fresh_names", func() interface{} { return last })
	pbt.Run(t, pbt.Spec{ID: "C31", Sub: "fresh_names", Quick: quick, Thorough: thorough,
		Rule: "1-3 never-seen namespace names get 1-2 prepare+commit rounds (optionally the last prepare is abandoned) and are deleted again while one goroutine runs StatisticManager.CalcAvgSQLTimes back to back as the metrics ticker does; the fresh name's active version and user are checked after each step; the race detector watches the statistics registry; every case is non-trivial (a new registry entry is inserted while the ticker iterates)",
		Floor: 0.9}, genFresh, func(c freshCase) pbt.Outcome { last = c; return checkFresh(c) })
}

// ---------------------------------------------------------------- overlapping commits of one prepare

// Two or three administrators send commit(n) at the same moment after ONE
// successful prepare(n, v). This is well defined (unlike simultaneous prepares,
// which share the spare generation by design = C31-F1): whatever the commits
// report, afterwards - and from then on - version v and its users must be in
// force and every other namespace untouched; a commit that reports success
// activates "exactly the configuration last prepared", so a second success
// must not undo the first. No operation on another namespace and no delete lies
// between the prepare and its commits, so the C31-F1/F2 patterns do not apply
// and every failure here is a violation.

type commitsCase struct {
	NS         int   `json:"ns"`         // namespace under change
	Others     int   `json:"others"`     // 0..2 other namespaces that exist (at their own version) and must not move
	Exists     bool  `json:"exists"`     // the namespace exists (v1) before the first round
	Committers []int `json:"committers"` // per round: 2..3 simultaneous commit calls
}

func genCommits(t *rapid.T) commitsCase {
	c := commitsCase{NS: rapid.IntRange(0, 2).Draw(t, "ns"), Others: rapid.IntRange(0, 2).Draw(t, "others"), Exists: rapid.Bool().Draw(t, "exists")}
	rounds := rapid.IntRange(8, 20).Draw(t, "rounds")
	for i := 0; i < rounds; i++ {
		c.Committers = append(c.Committers, rapid.IntRange(2, 3).Draw(t, "committers"))
	}
	return c
}

func checkCommits(c commitsCase) (o pbt.Outcome) {
	if c.NS < 0 || c.NS > 2 || c.Others < 0 || c.Others > 2 || len(c.Committers) < 1 || len(c.Committers) > 24 {
		o.Skip = "malformed case"
		return
	}
	for _, k := range c.Committers {
		if k < 2 || k > 4 {
			o.Skip = "malformed case"
			return
		}
	}
	m := manager()
	maxV := len(c.Committers) + 4
	if v := resetManager(m, maxV); v != "" {
		o.Violation = v
		return
	}
	want := state{absent, absent, absent}
	fail := func(f string, a ...interface{}) {
		if o.Violation == "" {
			o.Violation = fmt.Sprintf(f, a...)
		}
	}
	// uninterleaved set-up: the other namespaces, and optionally v1 of the one under change
	version := 0
	setup := func(i int) bool {
		version++
		n := nsNames[i]
		var err1, err2 error
		if p := pbt.Catch(func() {
			err1 = m.ReloadNamespacePrepare(nsenv.Config(n, version))
			if err1 == nil {
				err2 = m.ReloadNamespaceCommit(n)
			}
		}); p != "" || err1 != nil || err2 != nil {
			fail("set-up prepare(%s,v%d); commit: %v / %v / panic %q", n, version, err1, err2, p)
			return false
		}
		want[i] = version
		return true
	}
	for k := 1; k <= c.Others; k++ {
		if !setup((c.NS + k) % 3) {
			return
		}
	}
	if c.Exists && !setup(c.NS) {
		return
	}
	name := nsNames[c.NS]
	verify := func(when string) bool {
		got, prob := observeNamespaces(m)
		if prob != "" {
			fail("%s: %s", when, prob)
			return false
		}
		if got != want {
			fail("%s: namespace view %v, must be %v", when, got, want)
			return false
		}
		if d := credentialDiff(m, want, maxV); d != "" {
			fail("%s: namespace view %v is right but the credential view is not: %s", when, got, d)
			return false
		}
		return true
	}
	if !verify("after the set-up") {
		return
	}

	overlaps, multi := 0, 0
	for r, k := range c.Committers {
		version++
		if err := m.ReloadNamespacePrepare(nsenv.Config(name, version)); err != nil {
			fail("round %d: prepare(%s,v%d) rejected: %v", r, name, version, err)
			return
		}
		var (
			gate     = make(chan struct{})
			inflight atomic.Int32
			ready    atomic.Int32
			wg       sync.WaitGroup
			errs     = make([]error, k)
			panics   = make([]string, k)
			seen     = make([]int32, k)
		)
		for g := 0; g < k; g++ {
			wg.Add(1)
			go func(g int) {
				defer wg.Done()
				<-gate
				// second, tight barrier: spin until every committer is running on a CPU
				ready.Add(1)
				for spin := 0; ready.Load() < int32(k) && spin < 2000000; spin++ {
				}
				seen[g] = inflight.Add(1) // >= 2: another commit had started and not yet returned
				panics[g] = pbt.Catch(func() { errs[g] = m.ReloadNamespaceCommit(name) })
				inflight.Add(-1)
			}(g)
		}
		close(gate)
		wg.Wait()
		succ := 0
		overlapped := false
		for g := 0; g < k; g++ {
			if panics[g] != "" {
				fail("round %d: commit(%s) number %d of %d simultaneous ones panicked: %s", r, name, g, k, panics[g])
			}
			if errs[g] == nil && panics[g] == "" {
				succ++
			}
			if seen[g] >= 2 {
				overlapped = true
			}
		}
		if overlapped {
			overlaps++
		}
		if succ > 1 {
			multi++
		}
		if o.Violation != "" {
			return
		}
		before := want
		if succ >= 1 {
			want[c.NS] = version
		}
		when := fmt.Sprintf("round %d: prepare(%s,v%d) then %d simultaneous commit(%s), %d reported success (errors %v), calls overlapped=%v; before the round %v",
			r, name, version, k, name, succ, errs, overlapped, before)
		if !verify(when) {
			return
		}
		// ... and it stays so (nothing is pending: a further commit must not change anything)
		var lateErr error
		if p := pbt.Catch(func() { lateErr = m.ReloadNamespaceCommit(name) }); p != "" {
			fail("%s; a later commit(%s) panicked: %s", when, name, p)
			return
		}
		if succ >= 1 && !verify(when+fmt.Sprintf("; then one more commit(%s) returned %v", name, lateErr)) {
			return
		}
		if succ == 0 {
			// nobody won although a configuration was prepared: allowed by the property, but
			// then the late commit decides; account for it
			if lateErr == nil {
				want[c.NS] = version
			}
			o.Labels = append(o.Labels, "no_commit_succeeded")
			if !verify(when + fmt.Sprintf("; then one more commit(%s) returned %v", name, lateErr)) {
				return
			}
		}
	}
	o.NonTrivial = overlaps > 0
	o.Labels = append(o.Labels, fmt.Sprintf("rounds_with_overlap_%d", min(overlaps, 10)))
	commitRounds.Add(int64(len(c.Committers)))
	commitOverlaps.Add(int64(overlaps))
	if multi > 0 {
		o.Labels = append(o.Labels, "more_than_one_commit_reported_success")
	}
	return
}

var commitRounds, commitOverlaps atomic.Int64

func TestC31ConcurrentCommits(t *testing.T) {
	defer func() { t.Logf("rounds %d, rounds in which commits overlapped %d", commitRounds.Load(), commitOverlaps.Load()) }()
	quick, thorough := 60, 250
	if raceRun() {
		quick, thorough = 30, 60
	}
	var last commitsCase
	defer raceGuard(t, "concurrent_commits", func() interface{} { return last })
	pbt.Run(t, pbt.Spec{ID: "C31", Sub: "concurrent_commits", Quick: quick, Thorough: thorough,
		Rule: "8-20 rounds per case on one namespace (0-2 other namespaces exist and must not move): a fault-free prepare(n,v) followed by 2-3 goroutines calling ReloadNamespaceCommit(n) behind a barrier; after they return, and again after one more commit, the namespace and credential views must show v (no operation on another namespace and no delete in between, so nothing here is classified as C31-F1/F2); non-trivial = in at least one round a commit started while another was still in flight",
		Floor: 0.5}, genCommits, func(c commitsCase) pbt.Outcome { last = c; return checkCommits(c) })
}
