//go:build verif

// C18 A transaction stays on one master connection per slice.
//
// Histories of 1-3 client sessions are generated up front and interpreted one
// command at a time against a live proxy with simulated MySQL backends
// (internal/sesshist). The oracle works only from what the backends logged and
// from the exported pool counters; the session model (in a transaction or not)
// is derived from the client commands by MySQL's rules, not from the proxy.
package c18

import (
	"fmt"
	"os"
	"sort"
	"strings"
	"testing"

	"pgregory.net/rapid"

	"verifharness/internal/fakemysql"
	"verifharness/internal/pbt"
	"verifharness/internal/proxyfix"
	sh "verifharness/internal/sesshist"
)

type held struct {
	conn  sh.ConnKey
	stmts int // tagged statements of the current transaction on this connection
}

type model struct {
	alive  bool
	txOpen bool // BEGIN / START TRANSACTION seen, no COMMIT / ROLLBACK yet
	ac0    bool // autocommit off
	// odd >= 0: step of a SET autocommit=1 that this session issued inside a BEGIN-started transaction while
	// autocommit was already on. MySQL treats it as a no-op (the transaction stays open); see finding C18-F1.
	odd int
	// connections the session is using: per slice, the connection of the open
	// transaction (keep-session off) or the pinned connection (keep-session on)
	held       map[string]*held
	lastTxStmt int // step of the latest statement of the open transaction, -1 if none
	txStmts    int
}

func (m *model) inTx() bool { return m.txOpen || m.ac0 }

func genCase(t *rapid.T) sh.Case {
	return sh.Gen(t, sh.Profile{MinCmds: 12, MaxCmds: 30, KeepSession: 2, Disconnects: true, Ping: true, OddAutocommit: true, Streamed: true})
}

func genCaseThorough(t *rapid.T) sh.Case {
	return sh.Gen(t, sh.Profile{MinCmds: 12, MaxCmds: 60, KeepSession: 2, Disconnects: true, Ping: true, OddAutocommit: true, Streamed: true})
}

func checkCase(c sh.Case) (o pbt.Outcome) {
	c.MaxExecMs, c.StallMs = 0, 0
	for i := range c.Cmds {
		c.Cmds[i].F = nil // C18 is about fault-free histories
	}
	tr := sh.Run(c, sh.Options{})
	if os.Getenv("VERIF_TRACE") != "" {
		fmt.Println(sh.Dump(tr))
	}
	if tr.SetupErr != "" {
		o.Skip = "fixture: " + strings.SplitN(tr.SetupErr, ":", 2)[0]
		return
	}
	cls := sh.ClassifyConns(tr.AllEvents)
	nsess := len(c.RWSplit)
	ms := make([]*model, nsess)
	for i := range ms {
		ms[i] = &model{alive: true, held: map[string]*held{}, odd: -1, lastTxStmt: -1}
	}
	lastStmtOf := make([]int, nsess) // step of the latest statement of each session
	for i := range lastStmtOf {
		lastStmtOf[i] = -1
	}
	lab := map[string]bool{}
	if c.KeepSession {
		lab["keep_session"] = true
	} else {
		lab["no_keep_session"] = true
	}
	lab[fmt.Sprintf("slices_%d", c.Slices)] = true
	done := func() bool { return o.Violation != "" || o.Known != "" }
	// report a failure that concerns the transaction of session s
	fail := func(st sh.Step, s int, f string, a ...interface{}) {
		if done() {
			return
		}
		msg := fmt.Sprintf("step %d (session %d, %s %q): ", st.Idx, st.Cmd.S, st.Cmd.K, st.SQL) + fmt.Sprintf(f, a...)
		if s >= 0 && ms[s].odd >= 0 {
			o.Known = "C18-F1"
			o.KnownWhat = msg + fmt.Sprintf(" [session %d sent SET autocommit=1 at step %d inside a BEGIN-started transaction with autocommit already on; MySQL keeps that transaction open]", s, ms[s].odd)
			return
		}
		o.Violation = msg
	}
	owner := func(k sh.ConnKey, except int) int {
		for i, m := range ms {
			if i == except || !m.alive || m.odd >= 0 {
				continue
			}
			for _, h := range m.held {
				if h.conn == k {
					return i
				}
			}
		}
		return -1
	}
	overlapped := false

	for _, st := range tr.Steps {
		if done() {
			break
		}
		if st.Cmd.K == sh.KReload || st.NoSession {
			continue
		}
		s := st.Cmd.S
		m := ms[s]
		evs := sh.SessionEvents(st.Events, cls)
		if st.IOErr != "" {
			// no faults are injected: the proxy has no reason to drop a client; not what C18 is about
			o.Skip = "client transport error without injected fault: " + strings.SplitN(st.IOErr, ":", 2)[0]
			return
		}
		// (G) nothing a session does may land on a connection another session is using
		for _, e := range evs {
			if ow := owner(sh.Key(e), s); ow >= 0 {
				fail(st, -1, "backend command %q ran on %s, which session %d is using (transaction or keep-session)", e.SQL, sh.Key(e), ow)
			}
		}
		wasInTx := m.inTx()
		switch {
		case sh.IsStmt(st.Cmd.K) && st.Cmd.K != sh.KDropFlight:
			if !st.OK {
				// no fault is injected: a failing statement comes from the environment (slow handshake, pool wait) and may
				// or may not have taken connections on the way
				o.Skip = "a statement failed without an injected fault"
				return
			}
			var tagged []fakemysql.Event
			for _, e := range evs {
				if e.Kind == "query" && sh.HasTag(e.SQL, st.Tag) {
					tagged = append(tagged, e)
				}
			}
			if len(tagged) == 0 {
				fail(st, -1, "statement succeeded but no backend received it")
				break
			}
			for _, e := range tagged {
				k := sh.Key(e)
				if !wasInTx && !c.KeepSession {
					continue
				}
				if wasInTx && e.Role != "master" {
					fail(st, s, "statement inside a transaction ran on replica %s", k)
				}
				h := m.held[e.Slice]
				switch {
				case h == nil:
					h = &held{conn: k}
					m.held[e.Slice] = h
				case h.conn == k:
				case wasInTx && h.stmts > 0:
					fail(st, s, "the transaction already uses %s on %s but this statement ran on %s", h.conn, e.Slice, k)
				default:
					// keep-session pin replaced outside a transaction (or before the transaction used the slice): C23's business
					h.conn, h.stmts = k, 0
				}
				if wasInTx {
					h.stmts++
				}
			}
			if wasInTx {
				// non-trivial: two statements of one transaction with a statement of another session in between
				if m.lastTxStmt >= 0 {
					for i, ls := range lastStmtOf {
						if i != s && ls > m.lastTxStmt {
							overlapped = true
						}
					}
				}
				m.lastTxStmt = st.Idx
				m.txStmts++
				if len(tagged) > 1 {
					lab["multi_slice_stmt_in_tx"] = true
				}
				if len(m.held) > 1 {
					lab["multi_slice_tx"] = true
				}
				if st.Cmd.K == sh.KUBig {
					lab["reply_over_16MiB_in_tx"] = true
				}
				if st.Cmd.K == sh.KUMulti {
					lab["two_result_sets_in_tx"] = true
				}
				if st.Cmd.K == sh.KUForUpdate || st.Cmd.K == sh.KSForUpdate {
					lab["for_update_in_tx"] = true
				}
				if (st.Cmd.K == sh.KURead || st.Cmd.K == sh.KSRead) && c.RWSplit[s] && c.Replicas > 0 {
					lab["read_in_tx_of_rwsplit_user"] = true
				}
				if m.ac0 && !m.txOpen {
					lab["autocommit0_tx"] = true
				}
			} else if st.Cmd.K == sh.KUBig || st.Cmd.K == sh.KUMulti {
				lab["streamed_reply_outside_tx"] = true
			} else if c.RWSplit[s] && tagged[0].Role == "replica" {
				lab["read_on_replica_outside_tx"] = true
			}
			lastStmtOf[s] = st.Idx
		case st.Cmd.K == sh.KBegin || st.Cmd.K == sh.KStart:
			if st.OK {
				if wasInTx {
					lab["begin_inside_tx"] = true
				}
				m.txOpen = true
			}
		case st.Cmd.K == sh.KAc0:
			if st.OK {
				m.ac0 = true
			}
		case st.Cmd.K == sh.KAc1:
			if st.OK {
				if m.txOpen && !m.ac0 {
					// MySQL (sys_vars.cc fix_autocommit): the value does not change, nothing is committed, the transaction stays open
					if m.odd < 0 {
						m.odd = st.Idx
					}
					lab["autocommit1_inside_begin_tx"] = true
				} else {
					if wasInTx {
						lab["autocommit1_ends_tx"] = true
					}
					m.ac0, m.txOpen = false, false
					endTx(m, c.KeepSession)
				}
			}
		case st.Cmd.K == sh.KCommit || st.Cmd.K == sh.KRollback:
			want := "commit"
			if st.Cmd.K == sh.KRollback {
				want = "rollback"
			}
			if !st.OK {
				o.Skip = want + " failed without an injected fault"
				return
			}
			if wasInTx {
				got := map[sh.ConnKey]int{}
				for _, e := range evs {
					if e.Kind == "query" && sh.Low(e) == want {
						got[sh.Key(e)]++
					}
				}
				used := map[sh.ConnKey]bool{}
				var slices []string
				for sl := range m.held {
					slices = append(slices, sl)
				}
				sort.Strings(slices)
				for _, sl := range slices {
					h := m.held[sl]
					used[h.conn] = true
					if h.stmts > 0 && got[h.conn] == 0 {
						fail(st, s, "%s was not sent to %s (%s), which the transaction used", strings.ToUpper(want), h.conn, sl)
					}
				}
				for k := range got {
					if !used[k] {
						fail(st, s, "%s was sent to %s, which the transaction did not use", strings.ToUpper(want), k)
					}
				}
				lab[want+"_of_open_tx"] = true
				if m.txStmts >= 2 {
					lab["tx_with_2plus_statements"] = true
				}
			}
			m.txOpen = false
			m.odd = -1
			endTx(m, c.KeepSession)
		case st.Cmd.K == sh.KSavepoint || st.Cmd.K == sh.KRollbackTo || st.Cmd.K == sh.KRelease:
			if wasInTx && len(evs) > 0 {
				lab["savepoint_cmd_in_tx"] = true
			}
		case st.Cmd.K == sh.KQuit || st.Cmd.K == sh.KDrop || st.Cmd.K == sh.KDropFlight:
			if !st.ProxyClosed {
				o.Skip = "proxy did not close the client socket within the deadline"
				return
			}
			if wasInTx && !c.KeepSession {
				// the open transaction must be ended on every connection it used
				ended := map[sh.ConnKey]bool{}
				for _, e := range st.Events {
					if (e.Kind == "query" && sh.Low(e) == "rollback") || e.Kind == "close" {
						ended[sh.Key(e)] = true
					}
				}
				for sl, h := range m.held {
					if h.stmts > 0 && !ended[h.conn] {
						fail(st, s, "client left inside a transaction but %s (%s) got neither ROLLBACK nor was it closed", h.conn, sl)
					}
				}
				lab["disconnect_inside_tx"] = true
			}
			m.alive = false
			m.odd = -1
			m.held = map[string]*held{}
		}
		// released: after every command the pools hand out exactly what the sessions are using
		if !done() {
			want := map[string]int64{}
			wantNoOdd := map[string]int64{}
			oddSess := -1
			for i, om := range ms {
				if !om.alive {
					continue
				}
				if om.odd >= 0 {
					oddSess = i
				}
				for sl := range om.held {
					want[sl+"/master"]++
					if om.odd < 0 {
						wantNoOdd[sl+"/master"]++
					}
				}
			}
			bad, explained := "", true
			for _, p := range st.Pools {
				if p.InUse != want[p.Name] && bad == "" {
					bad = fmt.Sprintf("pool %s has InUse=%d but the sessions are using %d connection(s) of it (%s)", p.Name, p.InUse, want[p.Name], describe(ms))
				}
				if p.InUse != wantNoOdd[p.Name] {
					explained = false
				}
			}
			if bad != "" {
				if oddSess >= 0 && explained {
					fail(st, oddSess, "%s", bad)
				} else {
					fail(st, -1, "%s", bad)
				}
			}
		}
	}
	o.NonTrivial = overlapped
	for l := range lab {
		o.Labels = append(o.Labels, l)
	}
	sort.Strings(o.Labels)
	return
}

// endTx: COMMIT / ROLLBACK / autocommit 0->1 end the transaction. With keep-session off its connections are
// released; with keep-session on they stay pinned.
func endTx(m *model, ks bool) {
	m.lastTxStmt, m.txStmts = -1, 0
	if ks {
		for _, h := range m.held {
			h.stmts = 0
		}
		return
	}
	m.held = map[string]*held{}
}

func describe(ms []*model) string {
	var parts []string
	for i, m := range ms {
		var hs []string
		for sl, h := range m.held {
			hs = append(hs, fmt.Sprintf("%s=%s", sl, h.conn))
		}
		sort.Strings(hs)
		parts = append(parts, fmt.Sprintf("s%d{alive=%v tx=%v ac0=%v %s}", i, m.alive, m.txOpen, m.ac0, strings.Join(hs, ",")))
	}
	return strings.Join(parts, " ")
}

const rule = "histories of 12-30 (thorough 12-60) commands for 1-3 sessions over 1-3 slices (hash rule) with 0-2 replicas, pools of 1-3 (+3..4 dynamic), users with and without read/write splitting, keep-session on in a third of the cases: BEGIN / START TRANSACTION / COMMIT / ROLLBACK / SET autocommit / SAVEPOINT family / unsharded and sharded reads, writes and SELECT ... FOR UPDATE / a few unsharded reads whose reply exceeds 16 MiB or carries two result sets (streamed by the proxy) / USE / SET variable / COM_PING / disconnect; non-trivial = some transaction has two statements with another session's statement in between"

func TestC18History(t *testing.T) {
	if _, err := proxyfix.Shared(); err != nil {
		t.Fatalf("fixture: the shared proxy did not start: %v", err) // inconclusive, not a violation
	}
	gen := genCase
	if pbt.Tier() == "thorough" {
		gen = genCaseThorough
	}
	pbt.Run(t, pbt.Spec{ID: "C18", Sub: "history", Quick: 300, Thorough: 1000, Rule: rule, Floor: 0.3}, gen, checkCase)
}
